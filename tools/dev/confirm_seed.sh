#!/bin/bash
# confirm_seed.sh <PID> <a|b>: re-confirm a seeded change in its scratch worktree /tmp/seed/<PID>:
#  1. the patch applies, the workspace builds and the pinned suite passes with it,
#  2. the demonstration fails with it and passes without it.
# Writes /verif/seeded/<PID><x>/{patch.diff,demo/,meta.json,confirm.log}
set -u
PID=$1; X=$2
WT=/tmp/seed/$PID; OUT=/tmp/seed/$PID.out; DST=/verif/seeded/$PID$X
export CARGO_NET_OFFLINE=true
mkdir -p $DST; rm -rf $DST/demo
LOG=$DST/confirm.log; : > $LOG
git -C $WT checkout -q -- . ; git -C $WT clean -fdq -e target
cp $OUT/$X.patch.diff $DST/patch.diff
cp $OUT/$X.notes.md $DST/notes.md 2>/dev/null
git -C $WT apply $DST/patch.diff || { echo "patch does not apply" >> $LOG; exit 1; }
echo "== suite with change" >> $LOG
(cd $WT && cargo nextest run --workspace --no-fail-fast --offline 2>&1 | tail -4) >> $LOG
SUITE=$(grep -c "168 passed" $LOG)
echo "== demo with change" >> $LOG
if [ -x $OUT/demo_$X/run.sh ]; then (cd $OUT/demo_$X && timeout 900 ./run.sh 2>&1 | tail -25; echo "exit=${PIPESTATUS[0]}") >> $LOG; else
(cd $OUT/demo_$X && ( [ -f build.rs ] && touch build.rs; true ) && timeout 900 cargo run --offline 2>&1 | tail -25; echo "exit=${PIPESTATUS[0]}") >> $LOG; fi
W=$(grep "^exit=" $LOG | tail -1)
git -C $WT checkout -q -- .
echo "== demo without change" >> $LOG
if [ -x $OUT/demo_$X/run.sh ]; then (cd $OUT/demo_$X && timeout 900 ./run.sh 2>&1 | tail -8; echo "exit=${PIPESTATUS[0]}") >> $LOG; else
(cd $OUT/demo_$X && ( [ -f build.rs ] && touch build.rs; true ) && timeout 900 cargo run --offline 2>&1 | tail -8; echo "exit=${PIPESTATUS[0]}") >> $LOG; fi
WO=$(grep "^exit=" $LOG | tail -1)
rm -rf $OUT/demo_$X/target
cp -r $OUT/demo_$X $DST/demo
echo "RESULT $PID$X suite_ok=$SUITE with:$W without:$WO" | tee -a $LOG
