#!/usr/bin/env python3
"""run_seeds.py [seed ...] -- apply each seeded change to /repo, run the check of the property it breaks (and, with
--all, every claimed property), undo it straight afterwards, and record in seeded/<id>/meta.json which checks caught it.
Nothing is ever committed to /repo.  Do not run while another job is compiling /repo."""
import json
import os
import re
import subprocess
import sys

VERIF = "/verif"
REPO = "/repo"


def sh(cmd, **kw):
    return subprocess.run(cmd, shell=True, capture_output=True, text=True, **kw)


def main():
    args = [a for a in sys.argv[1:] if not a.startswith("--")]
    all_props = "--all" in sys.argv
    seeds = args or sorted(os.listdir(os.path.join(VERIF, "seeded")))
    manifest = json.load(open(os.path.join(VERIF, "MANIFEST.json")))
    claimed = [c["property_id"] for c in manifest["checks"]]
    assert sh(f"git -C {REPO} status --porcelain").stdout.strip() == "", "/repo is not clean"
    for sid in seeds:
        d = os.path.join(VERIF, "seeded", sid)
        meta = json.load(open(os.path.join(d, "meta.json")))
        pid = meta["breaks_property"]
        r = sh(f"git -C {REPO} apply {d}/patch.diff")
        if r.returncode != 0:
            print(sid, "patch does not apply:", r.stderr[:200])
            continue
        results = {}
        try:
            for p in (claimed if all_props else [pid]):
                if p not in claimed:
                    results[p] = "not claimed"
                    continue
                c = sh(f"./check {p} --tier quick", cwd=VERIF)
                viol = [l for l in c.stdout.split("\n") if l.startswith("VIOLATION") or l.startswith("  obligation")]
                und = [l for l in c.stdout.split("\n") if l.startswith("UNDECIDED")]
                results[p] = {"exit": c.returncode, "violation_lines": viol[:6], "undecided": und[:4]}
        finally:
            sh(f"git -C {REPO} checkout -- .")
        caught = [p for p, v in results.items() if isinstance(v, dict) and v["exit"] == 1]
        meta["detected_by"] = {"checks_run": results, "caught_by": caught,
                               "verdict": "caught" if pid in caught else ("caught by another property's check" if caught else
                                          ("undecided (exit 2)" if isinstance(results.get(pid), dict) and results[pid]["exit"] == 2 else "MISSED"))}
        json.dump(meta, open(os.path.join(d, "meta.json"), "w"), indent=1)
        print(sid, pid, meta["detected_by"]["verdict"], caught)
    # restore evidence of the unchanged tree is the caller's job (re-run the checks)


if __name__ == "__main__":
    main()
