#!/usr/bin/env python3
"""dev helper: print compactly the require/ensure/body of functions matching a substring from a
`verus f.rs --log vir-simple --log-dir D` dump (D/crate-simple.vir).  There is no vstd source on this image;
this is how vstd's specs were read while writing the units."""
import re, sys

def parse(s):
    toks = re.findall(r'"(?:[^"\\]|\\.)*"|[()]|[^\s()]+', s)
    pos = 0
    def rd():
        nonlocal pos
        t = toks[pos]; pos += 1
        if t == '(':
            l = []
            while toks[pos] != ')':
                l.append(rd())
            pos += 1
            return l
        return t
    out = []
    while pos < len(toks):
        out.append(rd())
    return out

def kw(l, key):
    for i, x in enumerate(l):
        if x == key and i + 1 < len(l):
            return l[i + 1]
    return None

def e(x):
    """expression -> compact string"""
    if isinstance(x, str):
        return x
    if not x:
        return "()"
    h = x[0]
    if h in ('@', '@@') and len(x) >= 3:
        return e(x[2])
    if h == '>':
        k = x[1]
        if k == 'Call':
            tgt = kw(x, ':target'); args = kw(x, ':args') or []
            name = '?'
            if isinstance(tgt, list):
                for y in tgt:
                    if isinstance(y, list) and y and y[0] == 'Fun':
                        name = y[2].split('::')[-1] if len(y) > 2 else '?'
                        full = y[2]
                        name = '::'.join(full.split('::')[-2:])
            return f"{name}({', '.join(e(a) for a in args)})"
        if k == 'Binary':
            op = x[2]; opn = op[1] if isinstance(op, list) else op
            if isinstance(op, list) and len(op) > 2 and op[1] in ('Arith', 'Inequality'):
                opn = op[2] if isinstance(op[2], str) else str(op[2])
            return f"({e(x[3][0] if isinstance(x[3], list) and len(x) == 4 else x[3])} {opn} {e(x[4]) if len(x) > 4 else e(x[3][1])})"
        if k == 'Logical':
            op = x[2][1]
            return f"({e(x[3])} {op} {e(x[4])})"
        if k == 'Unary':
            op = x[2]; opn = op[1] if isinstance(op, list) else op
            if opn == 'Trigger':
                return '#[trigger]' + e(x[3])
            return f"{opn}({e(x[3])})"
        if k == 'UnaryOpr':
            return f"{e(x[2])}<{e(x[3])}>"
        if k == 'Quant':
            return f"{x[2][0]}|{', '.join(v[1] for v in x[3])}| {e(x[4])}"
        if k == 'ReadPlace':
            return e(x[2][0]) if isinstance(x[2], list) else e(x[2])
        if k == 'Block':
            return '{' + '; '.join(e(y) for y in x[2:] if y != []) + '}'
        if k == 'Const':
            return str(x[2][-1]) if isinstance(x[2], list) else str(x[2])
        if k == 'Ctor':
            return f"{x[2][-1]}::{x[3]}({', '.join(e(f) for f in x[4])})" if len(x) > 4 else f"{x[2]}"
        if k == 'If':
            return f"if {e(x[2])} {{{e(x[3])}}} else {{{e(x[4]) if len(x) > 4 else ''}}}"
        if k == 'Var':
            return e(x[2])
        return f"<{k} " + ' '.join(e(y) for y in x[2:]) + ">"
    if h == 'Place':
        if x[1] in ('Local',):
            return e(x[2])
        if x[1] == 'Temporary':
            return e(x[2])
        if x[1] == 'Field':
            return e(x[3]) + '.' + e(kw(x[2], ':field') if isinstance(x[2], list) else x[2])
        return ' '.join(e(y) for y in x[1:])
    if h == 'VarIdent':
        return x[1].strip('"')
    if h in ('Typ', 'UnfinalizedReadKind', 'ImplPath', 'CallTargetAttrs'):
        return ''
    if h == '->':
        return f"{x[1]}={e(x[2])}"
    return '[' + ' '.join(e(y) for y in x if not (isinstance(y, list) and y and y[0] == 'Typ')) + ']'

s = open(sys.argv[1]).read()
forms = re.split(r'\n(?=\(@ ")', s)
for name in sys.argv[2:]:
    for f in forms:
        m = re.search(r':name \(Fun :path ([^\)]+)\)', f)
        if m and name in m.group(1):
            try:
                tree = parse(f)[0]
                fn = tree[2] if tree[0] == '@' else tree
                print('=====', m.group(1), ' opaque=' + str(kw(fn, ':opaqueness'))[:40])
                params = kw(fn, ':params') or []
                print('  params:', ', '.join(e(kw(p[2] if p[0] == '@' else p, ':name')) for p in params))
                for key in (':require', ':ensure', ':returns', ':decrease', ':body'):
                    v = kw(fn, key)
                    if v and v != 'None':
                        if key == ':ensure' and isinstance(v, list) and len(v) == 2 and all(isinstance(y, list) for y in v):
                            for grp in v:
                                for c in grp:
                                    print(f'  {key}:', e(c)[:1500])
                        elif key in (':require', ':decrease'):
                            for c in v:
                                print(f'  {key}:', e(c)[:1500])
                        else:
                            print(f'  {key}:', e(v)[:3000])
            except Exception as ex:
                print('  (parse failed:', ex, ')')
            print()
