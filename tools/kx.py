#!/usr/bin/env python3
"""kx -- run Kani harnesses that live in /verif/units/kx/<crate>/*.rs against the real, unextracted crates.

The harness modules are pulled into /repo by one-line `#[cfg(kani)] #[path = "..."] mod ...;` hooks
(MANIFEST.hooks).  Nothing is copied: `cargo kani` compiles /repo's working tree.

Labels: a harness is `complete` only if no loop depends on a symbolic value and the symbolic inputs range
over their whole (valid) type; everything else is `bounded` with the bound stated in specs/properties.json.
"""
import concurrent.futures as cf
import json
import threading
import os
import re
import shutil
import subprocess
import time

VERIF = os.path.dirname(os.path.dirname(os.path.abspath(__file__)))
REPO = os.environ.get("VERIF_REPO", "/repo")
TARGET = os.environ.get("VERIF_KANI_TARGET") or os.path.join(VERIF, "build", "kani")
GEN = os.path.join(VERIF, "build", "gen")  # included by absolute path from the harness modules
CMD_DESCR = ("CARGO_NET_OFFLINE=true cargo kani -p <crate> -Z function-contracts -Z stubbing --harness <h>... "
             "(cwd=/repo, --target-dir /verif/build/kani/<crate>)")
PKG = {"rustemo": "rustemo", "compiler": "rustemo-compiler"}
DEFAULT_TIMEOUT = int(os.environ.get("VERIF_KANI_TIMEOUT", "1500"))
MAX_JOBS = int(os.environ.get("VERIF_KANI_JOBS", "3"))
PLAYBACK_TIMEOUT = int(os.environ.get("VERIF_KANI_PLAYBACK_TIMEOUT", "900"))  # the re-run that asks CBMC for a concrete input

HARNESS_RE = re.compile(r"^(?:Thread \d+: )?Checking harness ([\w:]+)\.\.\.", re.M)


def pregen():
    """Generate the block-lift sources needed by cfg(kani) includes (C05, C17). Raises ExtractError."""
    import glob
    import lift
    os.makedirs(GEN, exist_ok=True)
    lift.generate_all(REPO, GEN)
    for f in glob.glob(os.path.join(VERIF, "units", "kx", "*", "*.rs")):
        crate, mod = os.path.basename(os.path.dirname(f)), os.path.basename(f)[:-3]
        pb = os.path.join(GEN, f"playback_{crate}_{mod}.rs")
        if not os.path.exists(pb):
            open(pb, "w").write("")


def split_per_harness(out):
    """cargo-kani -j interleaves threads: a `Thread N:` prefix opens a block that belongs to thread N."""
    segs = {}
    order = []
    cur_thread, cur_of_thread = None, {}
    cur_name = None
    for line in out.split("\n"):
        m = re.match(r"^Thread (\d+): ?(.*)$", line)
        body = line
        if m:
            cur_thread, body = m.group(1), m.group(2)
            cur_name = cur_of_thread.get(cur_thread)
        hm = re.match(r"^Checking harness ([\w:]+)\.\.\.", body)
        if hm:
            cur_name = hm.group(1)
            if cur_thread is not None:
                cur_of_thread[cur_thread] = cur_name
            if cur_name not in segs:
                segs[cur_name] = []
                order.append(cur_name)
        if cur_name is not None:
            segs[cur_name].append(body)
    return [(n, "\n".join(segs[n])) for n in order]


def parse_output(out):
    """Split cargo-kani output per harness and summarise."""
    res = {}
    for (name, seg) in split_per_harness(out):
        short = name.split("::")[-1]
        r = {"harness": name, "tail": seg[-8000:]}
        m = re.search(r"^VERIFICATION:- (SUCCESSFUL|FAILED)", seg, re.M)
        r["verdict"] = m.group(1) if m else None
        m = re.search(r"\*\* (\d+) of (\d+) failed", seg)
        if m:
            r["checks"] = {"failed": int(m.group(1)), "total": int(m.group(2))}
        m = re.search(r"\*\* (\d+) of (\d+) cover properties satisfied", seg)
        if m:
            r["covers"] = {"satisfied": int(m.group(1)), "total": int(m.group(2))}
        m = re.search(r"Verification Time: ([\d.]+)s", seg)
        if m:
            r["solver_s"] = float(m.group(1))
        failed = []
        for cm in re.finditer(r"Check \d+: (\S+)\n\s+- Status: (FAILURE|UNDETERMINED)\n\s+- Description: \"(.*?)\"\n\s+- Location: (.*?)\n", seg):
            failed.append({"check": cm.group(1), "status": cm.group(2), "description": cm.group(3), "location": cm.group(4)})
        # summary form "Failed Checks: ..."
        for cm in re.finditer(r"^Failed Checks: (.*)\n File: \"(.*?)\", line (\d+), in (\S+)", seg, re.M):
            failed.append({"check": "summary", "status": "FAILURE", "description": cm.group(1), "location": f"{cm.group(2)}:{cm.group(3)} in {cm.group(4)}"})
        r["failed_checks"] = failed
        unsat_cover = re.findall(r"Check \d+: (\S*cover\S*)\n\s+- Status: (UNSATISFIABLE|UNREACHABLE)\n\s+- Description: \"(.*?)\"", seg)
        r["dead_covers"] = [{"check": a, "status": b, "description": c} for (a, b, c) in unsat_cover]
        r["stubs"] = re.findall(r"- Stub: (.*)", seg)
        ct = re.search(r"Concrete playback unit test for `.*?`:\n```\n(.*?)```", seg, re.S)
        if ct:
            r["concrete_test"] = ct.group(1)
        res[short] = r
    return res


def cargo_kani(crate, harnesses, extra=None, timeout=DEFAULT_TIMEOUT, jobs=None):
    env = dict(os.environ)
    env["CARGO_NET_OFFLINE"] = "true"
    env.pop("RUSTUP_TOOLCHAIN", None)
    tdir = os.path.join(TARGET, crate)
    os.makedirs(tdir, exist_ok=True)
    cmd = ["cargo", "kani", "-p", PKG[crate], "-Z", "function-contracts", "-Z", "stubbing", "--target-dir", tdir]
    if jobs and len(harnesses) > 1:
        cmd += ["-j", str(jobs), "--output-format", "terse"]
    else:
        cmd += ["--output-format", "regular"]
    for h in harnesses:
        cmd += ["--harness", h]
    cmd += extra or []
    t0 = time.time()

    # A runaway CBMC (recursive drop glue, symbolic Vec::retain) can take 50+ GB.  RLIMIT_AS proved too blunt (CBMC's
    # address space is several times its resident set and checks then end in "Status: ERROR"), so a watchdog thread kills
    # any cbmc descendant of this invocation whose RESIDENT set exceeds the cap; that harness then has no verdict (exit 2).
    cap_kb = int(os.environ.get("VERIF_KANI_MEM_GB", "20")) * 1024 * 1024
    stop = threading.Event()
    killed = []

    def watchdog(root_pid_holder):
        while not stop.wait(5):
            try:
                root = root_pid_holder[0]
                if root is None:
                    continue
                # all descendants of root
                procs = {}
                for d in os.listdir("/proc"):
                    if d.isdigit():
                        try:
                            st = open(f"/proc/{d}/stat").read().split(") ")[-1].split()
                            procs[int(d)] = int(st[1])
                        except Exception:
                            pass
                desc, frontier = set(), {root}
                while frontier:
                    nxt = {p for p, pp in procs.items() if pp in frontier and p not in desc}
                    desc |= nxt
                    frontier = nxt
                for pid in desc:
                    try:
                        if b"cbmc" not in open(f"/proc/{pid}/cmdline", "rb").read()[:64]:
                            continue
                        rss = int(re.search(r"VmRSS:\s+(\d+)", open(f"/proc/{pid}/status").read()).group(1))
                        if rss > cap_kb:
                            os.kill(pid, 9)
                            killed.append((pid, rss))
                    except Exception:
                        pass
            except Exception:
                pass

    holder = [None]
    th = threading.Thread(target=watchdog, args=(holder,), daemon=True)
    th.start()
    proc = subprocess.Popen(cmd, cwd=REPO, env=env, stdout=subprocess.PIPE, stderr=subprocess.PIPE, text=True, start_new_session=True)
    holder[0] = proc.pid
    try:
        so, se = proc.communicate(timeout=timeout)
        out, rc = so + "\n" + se, proc.returncode
    except subprocess.TimeoutExpired:
        # kill the whole process group of this invocation only (never a global pkill)
        try:
            os.killpg(proc.pid, 9)
        except Exception:
            pass
        so, se = proc.communicate()
        out, rc = (so or "") + "\n" + (se or "") + "\nKX-TIMEOUT", 124
    finally:
        stop.set()
    if killed:
        out += "\nKX-MEMORY-CAP: killed cbmc " + ", ".join(f"pid {p} at {r // 1024} MB" for p, r in killed) + " (out of memory)"
    return {"cmd": " ".join(cmd), "rc": rc, "out": out, "wall_s": time.time() - t0}


def run_harnesses(obls, tier="quick"):
    """obls: list of obligation dicts (crate, harness, kind, unwind?, expect_stub?) -> {harness: result}"""
    from rsx import ExtractError
    results = {}
    try:
        pregen()
    except ExtractError as e:
        for o in obls:
            results[o["harness"]] = {"status": "undecided", "reason": "block-lift: " + str(e)}
        return results
    by_crate = {}
    for o in obls:
        by_crate.setdefault(o["crate"], []).append(o)
    for crate, os_ in by_crate.items():
        names = [o["harness"] for o in os_]
        # DEFAULT_TIMEOUT is a budget per harness: a batch of n harnesses on j workers gets ceil(n / j) of them
        jobs = min(MAX_JOBS, len(names))
        run = cargo_kani(crate, names, timeout=DEFAULT_TIMEOUT * -(-len(names) // jobs), jobs=jobs)
        parsed = parse_output(run["out"])
        compile_err = re.search(r"^error(\[E\d+\])?:", run["out"], re.M) and not parsed
        # phase 2: every harness that did not come back SUCCESSFUL is re-run alone with the regular (per-check) output
        # and concrete playback, so that a FAILED verdict can be classified: failing check / unwinding / cover / memory.
        redo = [h for h in names if h in parsed and parsed[h]["verdict"] == "FAILED"]
        detail = {}
        if redo and not compile_err:
            with cf.ThreadPoolExecutor(max_workers=MAX_JOBS) as ex:
                futs = {h: ex.submit(cargo_kani, crate, [h], ["-Z", "concrete-playback", "--concrete-playback=print"], PLAYBACK_TIMEOUT) for h in redo}
                for h, f in futs.items():
                    r2 = f.result()
                    p2 = parse_output(r2["out"]).get(h)
                    if p2 is None or r2["rc"] == 124 or "out of memory" in r2["out"] or "CBMC failed with status" in r2["out"]:
                        # the search for a concrete input (a second, harder SAT query) ran out of time or memory: classify the
                        # failure from a plain detailed run; a definite failing check is then a violation without a concrete input
                        r3 = cargo_kani(crate, [h])
                        p3 = parse_output(r3["out"]).get(h)
                        if p3:
                            p3["playback_gave_up"] = True
                            r2, p2 = r3, p3
                    if p2:
                        p2["oom"] = "out of memory" in r2["out"] or "CBMC failed with status" in r2["out"]
                        p2["timeout"] = r2["rc"] == 124
                        detail[h] = p2
        for o in os_:
            h = o["harness"]
            pr = detail.get(h) or parsed.get(h)
            if pr is None or pr["verdict"] is None:
                reason = ("out of memory (per-process cap)" if "out of memory" in run["out"] else "timeout" if run["rc"] == 124
                          else ("compile error under cfg(kani)" if compile_err else "no verdict"))
                results[h] = {"status": "undecided", "reason": reason, "tail": run["out"][-3000:], "wall_s": run["wall_s"]}
                continue
            r = dict(pr)
            r["wall_s"] = run["wall_s"]
            r["cmd"] = run["cmd"]
            undetermined = [c for c in pr["failed_checks"] if c["status"] == "UNDETERMINED"]
            hard = [c for c in pr["failed_checks"] if c["status"] == "FAILURE"]
            unwinding = [c for c in hard if "unwinding assertion" in c["description"]]
            if pr["verdict"] == "SUCCESSFUL":
                if pr["dead_covers"]:
                    r["status"] = "undecided"
                    r["reason"] = "vacuity guard: cover not satisfiable: " + "; ".join(c["description"] for c in pr["dead_covers"])
                elif pr.get("covers") and pr["covers"]["satisfied"] < pr["covers"]["total"]:
                    r["status"] = "undecided"
                    r["reason"] = f"vacuity guard: only {pr['covers']['satisfied']} of {pr['covers']['total']} cover properties satisfied"
                elif o.get("expect_stub") and not any(o["expect_stub"] in s for s in pr["stubs"]):
                    r["status"] = "undecided"
                    r["reason"] = f"expected stub {o['expect_stub']} not confirmed by Kani"
                elif not pr.get("checks") or pr["checks"]["total"] == 0:
                    r["status"] = "undecided"
                    r["reason"] = "vacuity guard: zero checks"
                else:
                    r["status"] = "ok"
            else:
                real = [c for c in hard if c not in unwinding and c["check"] != "summary"] or [c for c in hard if c not in unwinding]
                if pr.get("oom") or pr.get("timeout"):
                    r["status"] = "undecided"
                    r["reason"] = "CBMC ran out of memory (per-process cap) or time on the detailed re-run"
                elif real:
                    r["status"] = "failed"
                    r["failed_checks"] = real
                    if pr.get("concrete_test"):
                        r["concrete_test"] = {"crate": crate, "harness": h, "test": pr["concrete_test"]}
                elif unwinding:
                    r["status"] = "undecided"
                    r["reason"] = "unwinding assertion failed: the stated bound is too small for this code"
                elif pr["dead_covers"]:
                    r["status"] = "undecided"
                    r["reason"] = "vacuity guard: cover not satisfiable: " + "; ".join(c["description"] for c in pr["dead_covers"])
                else:
                    r["status"] = "undecided"
                    r["reason"] = "FAILED without a definite failing check (" + ", ".join(c["description"] for c in undetermined)[:300] + ")"
            results[h] = r
    return results


def run_twin(twin):
    """twin = {crate, harness}: run the Kani twin of a failed Verus obligation to obtain concrete values."""
    hs = twin["harness"] if isinstance(twin["harness"], list) else [twin["harness"]]
    r = run_harnesses([{"crate": twin["crate"], "harness": h, "kind": "bounded"} for h in hs])
    # the first twin that fails with concrete values; otherwise the first one that fails; otherwise the first
    for h in hs:
        if (r.get(h) or {}).get("concrete_test"):
            return r[h]
    for h in hs:
        if (r.get(h) or {}).get("status") == "failed":
            return r[h]
    return r.get(hs[0])


def run_concrete(ct):
    """Replay Kani's concrete values against the real code with `cargo kani playback` (native execution of the harness)."""
    import glob
    crate, h = ct["crate"], ct["harness"]
    pregen()
    target = None
    for f in glob.glob(os.path.join(VERIF, "units", "kx", crate, "*.rs")):
        if re.search(r"\bfn " + re.escape(h) + r"\b", open(f).read()):
            target = os.path.join(GEN, f"playback_{crate}_{os.path.basename(f)[:-3]}.rs")
    if target is None:
        print(f"replay: harness {h} not found in units/kx/{crate}")
        return 2
    open(target, "w").write(ct["test"])
    env = dict(os.environ)
    env["CARGO_NET_OFFLINE"] = "true"
    env.pop("RUSTUP_TOOLCHAIN", None)
    m = re.search(r"fn (kani_concrete_playback_\w+)", ct["test"])
    # `cargo kani playback` takes no --target-dir: the playback build goes to its own directory through CARGO_TARGET_DIR
    env["CARGO_TARGET_DIR"] = os.path.join(TARGET, crate + "_playback")
    cmd = ["cargo", "kani", "playback", "-Z", "concrete-playback", "-p", PKG[crate], "--", m.group(1) if m else h]
    try:
        p = subprocess.run(cmd, cwd=REPO, env=env, capture_output=True, text=True, timeout=1800)
    finally:
        open(target, "w").write("")
    out = p.stdout + p.stderr
    print(out[-6000:])
    failed = ("panicked at" in out) or ("test result: FAILED" in out)
    passed = "test result: ok" in out
    print("replay: the real code FAILS on Kani's values" if failed else
          ("replay: no failure reproduced" if passed else "replay: could not run the playback test"))
    return 1 if failed else (0 if passed else 2)


if __name__ == "__main__":
    import sys
    crate, hs = sys.argv[1], sys.argv[2:]
    r = run_harnesses([{"crate": crate, "harness": h, "kind": "bounded"} for h in hs])
    for h, x in r.items():
        print(h, x["status"], x.get("reason", ""), x.get("checks"), x.get("covers"), f"{x.get('wall_s', 0):.0f}s", "solver", x.get("solver_s"))
        if x["status"] != "ok":
            print(x.get("tail", "")[-3000:])
            for c in x.get("failed_checks", []):
                print("  ", c)
