#!/usr/bin/env python3
"""lift -- block lifts for Kani (C05 conflict resolution, C17 CLI mapping). Filled in below."""


def generate_all(repo, gen):
    return []
