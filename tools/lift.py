#!/usr/bin/env python3
"""lift -- *block lifts* for Kani (labelled as such in every report; DESIGN.md section 3, C05 and C17).

A block lift copies a statement range of a function that neither verifier can take whole, verbatim, into a
generated function that is compiled *inside the real crate* (cfg(kani) include!) against the real types.
Trusted on top of Kani: wrapping a statement range in a function header whose parameters are exactly the
range's free variables preserves its meaning.  The free-variable set is recomputed from the token stream on
every run and compared with the declared list; any difference, or a moved anchor, is exit 2 (ExtractError).
"""
import hashlib
import os
import re
import sys

sys.path.insert(0, os.path.dirname(os.path.abspath(__file__)))
import rsx  # noqa: E402
from rsx import ExtractError  # noqa: E402


def idents(src, lo, hi):
    """identifiers used in [lo, hi) that can name a variable: not `_`, not a field/method name (preceded by `.`)"""
    res = []
    for i in range(lo, hi):
        t = src.toks[i]
        if t.kind != "ident" or t.text == "_":
            continue
        if src.toks[src.prev_sig(i)].text == "." and src.toks[src.prev_sig(src.prev_sig(i))].text != ".":
            continue
        res.append(t.text)
    return res


def bound_names_outside(src, fn_item, blk_lo, blk_hi):
    """identifiers bound (let / for / closure params / fn params / if-let / match arms) in fn_item outside [blk_lo, blk_hi)"""
    t = src.toks
    names = set()
    i = fn_item.kw
    while i < fn_item.body_close:
        if blk_lo <= i < blk_hi:
            i = blk_hi
            continue
        tok = t[i]
        if tok.kind == "ident" and tok.text in ("let", "for"):
            j = src.sig(i + 1)
            stop = "=" if tok.text == "let" else "in"
            while j < fn_item.body_close and t[j].text != stop and t[j].text != ";":
                if t[j].kind == "ident" and t[j].text not in ("mut", "ref", "Some", "Ok", "Err", "None") and t[src.sig(j + 1)].text not in ("(", "::", "{"):
                    names.add(t[j].text)
                if t[j].text == ":" and t[j + 1].text != ":":  # type ascription: skip to stop
                    while t[j].text not in (stop, ";"):
                        j += 1
                    break
                j += 1
        elif tok.text == "|":
            # closure parameter list |a, b|
            p = src.prev_sig(i)
            if t[p].text in ("(", ",", "="):
                j = i + 1
                while t[j].text != "|":
                    if t[j].kind == "ident" and t[j].text not in ("mut", "ref"):
                        names.add(t[j].text)
                    j += 1
                i = j
        i += 1
    # fn parameters
    p = src.sig(fn_item.kw + 1)
    while t[p].text != "(":
        p += 1
    close = src.match(p)
    j = p + 1
    while j < close:
        if t[j].kind == "ident" and t[src.sig(j + 1)].text == ":":
            names.add(t[j].text)
        if t[j].kind == "ident" and t[j].text == "self":
            names.add("self")
        j += 1
    return names


def bound_names_inside(src, lo, hi):
    t = src.toks
    names = set()
    i = lo
    while i < hi:
        tok = t[i]
        if tok.kind == "ident" and tok.text in ("let", "for"):
            j = src.sig(i + 1)
            stop = "=" if tok.text == "let" else "in"
            while j < hi and t[j].text != stop and t[j].text != ";":
                if t[j].kind == "ident" and t[j].text not in ("mut", "ref") and t[src.sig(j + 1)].text not in ("(", "::", "{"):
                    names.add(t[j].text)
                if t[j].text == ":" and t[j + 1].text != ":":
                    break
                j += 1
        elif tok.text == "|" and t[src.prev_sig(i)].text in ("(", ",", "="):
            j = i + 1
            while t[j].text != "|":
                if t[j].kind == "ident" and t[j].text not in ("mut", "ref"):
                    names.add(t[j].text)
                j += 1
            i = j
        i += 1
    return names


CONFLICT_DECLARED = ["actions", "follow_term", "item", "new_reduce", "prod", "self", "state"]


def conflict_block_range(repo):
    """Locate the conflict-resolution statements (the `else` arm of `if actions.is_empty()` in calculate_reductions),
    check every structural assumption of the lift, and return (block_text, then_body, meta).  Used by the Kani lift
    below and by the Verus lift (vx directive `//@lift ALIAS conflict_block`, rule R-LIFT)."""
    rel = "rustemo-compiler/src/table/mod.rs"
    src = rsx.Source(os.path.join(repo, rel))
    imp = src.find_impl(r"^impl < 'g , 's > LRTable < 'g , 's >", has="calculate_reductions")
    fn = imp.child("fn", "calculate_reductions")
    t = src.toks
    anchor = None
    for i in range(fn.body_open, fn.body_close):
        if t[i].kind == "comment" and t[i].text.strip() == "// Conflict. Try to resolve.":
            if anchor is not None:
                raise ExtractError("conflict block: anchor comment appears twice")
            anchor = i
    if anchor is None:
        raise ExtractError("conflict block: anchor comment `// Conflict. Try to resolve.` not found in calculate_reductions")
    ob = src.prev_sig(anchor)
    if t[ob].text != "{" or t[src.prev_sig(ob)].text != "else":
        raise ExtractError("conflict block: anchor is not the first thing inside an `else {` arm")
    cb = src.match(ob)
    # the `if` this else belongs to must test `actions.is_empty()`
    ifclose = src.prev_sig(src.prev_sig(ob))
    if t[ifclose].text != "}":
        raise ExtractError("conflict block: unexpected shape before else")
    ifopen = src.match(ifclose)
    cond = "".join(x.text for x in t[ifopen - 12:ifopen] if x.kind not in ("ws", "comment"))
    # (the guard and the then-arm are no longer pinned here: the enclosing range reduce_block is verified with them,
    #  so an edit of either surfaces as a failed obligation of reduce_block instead of an undecided unit)
    then_body = "".join(x.text for x in t[ifopen + 1:ifclose] if x.kind not in ("ws", "comment"))
    block_text = src.text[t[ob].e:t[cb].s]
    outside = bound_names_outside(src, fn, ob, cb + 1)
    used = set(idents(src, ob + 1, cb))
    # names (re)bound inside the range itself (closure parameters, lets) shadow outer ones of the same name
    inside = bound_names_inside(src, ob + 1, cb)
    free = sorted(((outside & used) - inside) | ({"self"} if "self" in used else set()))
    declared = CONFLICT_DECLARED
    if free != declared:
        raise ExtractError(f"conflict block: free variables changed: now {free}, declared {declared}")
    # log! statements inside are kept verbatim (none today)
    sha = hashlib.sha256(block_text.encode()).hexdigest()[:16]
    a, z = src.line_of(t[ob].s), src.line_of(t[cb].e)
    meta = {"lift": "conflict_block", "file": rel, "lines": [a, z], "sha256_16": sha, "free_variables": declared}
    return block_text, then_body, meta


VERUS_CONFLICT_HEADER = """impl<'g, 's> LRTable<'g, 's> {
    fn conflict_block(
        &self,
        state: &LRState<'g>,
        item: &LRItem,
        prod: &Production,
        follow_term: &Terminal,
        actions: &mut Vec<Action>,
        new_reduce: Action,
    ) {"""


def verus_conflict_source(repo):
    """Text of a virtual source file for the Verus unit: the lifted statements, verbatim, as the body of a method of the
    real `impl LRTable` whose receiver/parameters are exactly the free variables of the range (same header as the Kani
    lift compiled against the real crate, where rustc checks the parameter types against the real call site's types)."""
    block_text, then_body, meta = conflict_block_range(repo)
    return VERUS_CONFLICT_HEADER + block_text + "    }\n}\n", meta


# ---------------------------------------------------------------------------
# LR driver: the statements of <LRParser as Parser>::parse_with_context from `let mut state = parse_stack.state();`
# to the end of the function (the whole shift/reduce/accept loop and the final `Ok(builder.get_result())`).

DRIVER_DECLARED = ["builder", "context", "input", "layout_parser", "parse_stack", "self"]
DRIVER_START = "let mut state = parse_stack.state();"
# statements of parse_with_context in front of the range (comments, whitespace and log! statements removed): the lift is
# refused (exit 2) when they change, because the types and initial values of the range's free variables come from them
DRIVER_PREFIX = ("letmutparse_stack:ParseStack<S,I,C,TK>=ParseStack::new(context,self.start_state);"
                 "letmutbuilder=self.builder.borrow_mut();"
                 "letlayout_parser:LayoutParser<'i,C,S,P,TK,NTK,D,L,I>=self.has_layout.then(||{LRParser::new_default("
                 "self.definition,S::default_layout().expect(\"Layout state not defined.\"),true,false,Rc::clone(&self.lexer),"
                 "RefCell::new(SliceBuilder::new(input)),)});")


def strip_logs(src, lo, hi):
    """normalised token text of [lo, hi) with `log!(..);` statements removed"""
    t = src.toks
    out, i = [], lo
    while i < hi:
        if t[i].kind == "ident" and t[i].text in ("log", "logn") and t[src.sig(i + 1)].text == "!":
            k = src.sig(src.sig(i + 1) + 1)
            close = src.match(k)
            q = src.sig(close + 1)
            i = (q if t[q].text == ";" else close) + 1
            continue
        if t[i].kind not in ("ws", "comment"):
            out.append(t[i].text)
        i += 1
    return "".join(out)


def driver_block_range(repo):
    rel = "rustemo/src/lr/parser.rs"
    src = rsx.Source(os.path.join(repo, rel))
    imp = src.find_impl(r"^impl < 'i , C , S , P , I , TK , NTK , D , L , B > Parser < 'i , I , C , S , TK > for LRParser", has="parse_with_context")
    fn = imp.child("fn", "parse_with_context")
    t = src.toks
    body_s = t[fn.body_open].e
    body = src.text[body_s:t[fn.body_close].s]
    if body.count(DRIVER_START) != 1:
        raise ExtractError("driver block: anchor `%s` not found exactly once in parse_with_context" % DRIVER_START)
    off = body_s + body.index(DRIVER_START)
    lo = next(i for i in range(fn.body_open, fn.body_close) if t[i].s == off)
    hi = fn.body_close
    prefix = strip_logs(src, fn.body_open + 1, lo)
    if prefix != DRIVER_PREFIX:
        raise ExtractError("driver block: the statements of parse_with_context in front of the range changed: %r" % prefix[:300])
    sig = "".join(x.text for x in t[fn.kw:fn.body_open] if x.kind not in ("ws", "comment"))
    if sig != "fnparse_with_context(&self,context:&mutC,input:&'iI)->Result<Self::Output>":
        raise ExtractError("driver block: signature of parse_with_context changed: %r" % sig)
    # `type Output = B::Output;`
    out_ty = imp.child("type", "Output").text()
    if re.sub(r"\s+", "", out_ty) != "typeOutput=B::Output;":
        raise ExtractError("driver block: associated type Output changed: %r" % out_ty)
    block_text = src.text[t[lo].s:t[hi].s]
    outside = bound_names_outside(src, fn, lo, hi)
    used = set(idents(src, lo, hi))
    inside = bound_names_inside(src, lo, hi)
    free = sorted(((outside & used) - inside) | ({"self"} if "self" in used else set()))
    if free != DRIVER_DECLARED:
        raise ExtractError(f"driver block: free variables changed: now {free}, declared {DRIVER_DECLARED}")
    # impl header pieces, verbatim
    head = src.text[t[imp.start].s:t[imp.body_open].s]
    m = re.match(r"\s*impl\s*(<[^>]*>)\s*Parser\s*<[^>]*>\s*for\s*(LRParser\s*<[^>]*>)\s*where(.*)$", head, re.S)
    if not m:
        raise ExtractError("driver block: unexpected impl header shape")
    generics, self_ty, where = m.group(1), m.group(2), m.group(3).rstrip()
    sha = hashlib.sha256(block_text.encode()).hexdigest()[:16]
    a, z = src.line_of(t[lo].s), src.line_of(t[hi].s)
    meta = {"lift": "driver_block", "file": rel, "lines": [a, z], "sha256_16": sha, "free_variables": DRIVER_DECLARED,
            "note": "`builder` is a RefMut<B> in the source (`self.builder.borrow_mut()`); the lifted parameter is `&mut B`: every use in the range is a "
                    "method call that auto-derefs to the same `B` method.  `parse_stack` and `layout_parser` are locals of the source function and by-value "
                    "parameters here.  The three statements in front of the range (ParseStack::new, borrow_mut, layout-parser construction) are NOT verified; "
                    "their text is pinned (a change is exit 2)."}
    header = ("impl%s %s\nwhere%s\n{\n    fn driver_block(\n        &self,\n        context: &mut C,\n        input: &'i I,\n"
              "        mut parse_stack: ParseStack<S, I, C, TK>,\n        builder: &mut B,\n"
              "        layout_parser: LayoutParser<'i, C, S, P, TK, NTK, D, L, I>,\n    ) -> Result<B::Output> {\n        ") % (generics, self_ty, where)
    return header + block_text + "}\n}\n", meta


def verus_driver_source(repo):
    return driver_block_range(repo)


VERUS_LIFTS = {"conflict_block": verus_conflict_source, "driver_block": verus_driver_source}


# ---------------------------------------------------------------------------
# LR(1) closure: the `for item in &self.items { .. }` statement of LRState::closure that computes the items one closure
# pass adds, with their lookahead (follow) sets.

CLOSURE_DECLARED = ["first_sets", "new_items", "prod_rn_lengths", "self"]


def closure_block_range(repo):
    rel = "rustemo-compiler/src/table/mod.rs"
    src = rsx.Source(os.path.join(repo, rel))
    imp = src.find_impl(r"^impl < 'g > LRState < 'g >", has="closure")
    fn = imp.child("fn", "closure")
    t = src.toks
    sig = "".join(x.text for x in t[fn.kw:fn.body_open] if x.kind not in ("ws", "comment"))
    if sig != "fnclosure(&mutself,first_sets:&FirstSets,prod_rn_lengths:&Option<ProdVec<usize>>)":
        raise ExtractError("closure block: signature of LRState::closure changed: %r" % sig)
    fors = [i for i in range(fn.body_open, fn.body_close) if t[i].kind == "ident" and t[i].text == "for"
            and norm_tokens_local(src, i, i + 12).startswith("foritemin&self.items{")]
    if len(fors) != 1:
        raise ExtractError("closure block: `for item in &self.items {` not found exactly once in LRState::closure")
    lo = fors[0]
    ob = lo
    while t[ob].text != "{":
        ob += 1
    hi = src.match(ob) + 1
    # the statement in front of the range declares new_items (its type is the lifted parameter's type)
    k = lo
    pre = []
    while len(pre) < 40 and (not pre or pre[0] != "let"):
        k = src.prev_sig(k)
        pre.insert(0, t[k].text)
    if "".join(pre) != "letmutnew_items:BTreeSet<LRItem>=BTreeSet::new();":
        raise ExtractError("closure block: the declaration of new_items in front of the range changed: %r" % "".join(pre))
    block_text = src.text[t[lo].s:t[hi - 1].e]
    outside = bound_names_outside(src, fn, lo, hi)
    used = set(idents(src, lo, hi))
    inside = bound_names_inside(src, lo, hi)
    free = sorted(((outside & used) - inside) | ({"self"} if "self" in used else set()))
    if free != CLOSURE_DECLARED:
        raise ExtractError(f"closure block: free variables changed: now {free}, declared {CLOSURE_DECLARED}")
    sha = hashlib.sha256(block_text.encode()).hexdigest()[:16]
    a, z = src.line_of(t[lo].s), src.line_of(t[hi - 1].e)
    meta = {"lift": "closure_block", "file": rel, "lines": [a, z], "sha256_16": sha, "free_variables": CLOSURE_DECLARED,
            "note": "`self` is `&mut self` in the source and `&self` here (the range only reads it); `new_items` is a local `BTreeSet<LRItem>` of the "
                    "source function and a `&mut BTreeSet<LRItem>` parameter here (its only use is `new_items.insert(..)`)"}
    header = ("impl<'g> LRState<'g> {\n    fn closure_block(\n        &self,\n        first_sets: &FirstSets,\n"
              "        prod_rn_lengths: &Option<ProdVec<usize>>,\n        new_items: &mut BTreeSet<LRItem>,\n    ) {\n            ")
    return header + block_text + "\n    }\n}\n", meta


def norm_tokens_local(src, lo, hi):
    return "".join(x.text for x in src.toks[lo:hi + 8] if x.kind not in ("ws", "comment"))


VERUS_LIFTS["closure_block"] = closure_block_range


# ---------------------------------------------------------------------------
# Lexical disambiguation of the token candidates (C06): the `if tokens.len() > 1 { .. }` statement of
# LRParser::next_token (longest match) and of GlrParser::find_lookaheads (longest match, then grammar order).

def _if_tokens_block(src, fn, what):
    """the unique statement `if tokens.len() > 1 { .. }` of fn -> (lo, hi) token range"""
    t = src.toks
    hits = [i for i in range(fn.body_open, fn.body_close) if t[i].kind == "ident" and t[i].text == "if"
            and norm_tokens_local(src, i, i + 10).startswith("iftokens.len()>1{")]
    if len(hits) != 1:
        raise ExtractError(f"{what}: `if tokens.len() > 1 {{` not found exactly once")
    lo = hits[0]
    ob = lo
    while t[ob].text != "{":
        ob += 1
    hi = src.match(ob) + 1
    nxt = src.sig(hi)
    if t[nxt].text == "else":
        raise ExtractError(f"{what}: the statement has grown an else branch")
    return lo, hi


def _stmt_before(src, lo, fn):
    """normalised text of the statement that ends right in front of token lo"""
    t = src.toks
    k = src.prev_sig(lo)
    if t[k].text != ";":
        return ""
    j = k - 1
    depth = 0
    while j > fn.body_open:
        if t[j].text in rsx.CLOSE:
            depth += 1
        elif t[j].text in rsx.OPEN:
            if depth == 0:
                break
            depth -= 1
        elif t[j].text == ";" and depth == 0:
            break
        j -= 1
    return "".join(x.text for x in t[j + 1:k + 1] if x.kind not in ("ws", "comment"))


def lr_longest_block_range(repo):
    rel = "rustemo/src/lr/parser.rs"
    src = rsx.Source(os.path.join(repo, rel))
    imp = src.find_impl(r"^impl < 'i , C , S , P , I , TK , NTK , D , L , B > LRParser < 'i , C , S , P , TK , NTK , D , L , B , I >", has="next_token")
    fn = imp.child("fn", "next_token")
    t = src.toks
    lo, hi = _if_tokens_block(src, fn, "lr longest-match block")
    before = _stmt_before(src, lo, fn)
    if before != "letmuttokens=next_tokens.collect::<Vec<_>>();":
        raise ExtractError("lr longest-match block: the statement in front of the range changed: %r" % before)
    # ... which must be the first statement of `if D::longest_match() {`
    k = src.prev_sig(lo)
    while t[k].text != "let":
        k -= 1
    guard = "".join(x.text for x in t[max(fn.body_open, k - 40):k] if x.kind not in ("ws", "comment"))
    if not guard.endswith("letnext_token=ifD::longest_match(){"):
        raise ExtractError("lr longest-match block: no longer guarded by `let next_token = if D::longest_match() {`: %r" % guard[-60:])
    after = "".join(x.text for x in t[hi:hi + 40] if x.kind not in ("ws", "comment"))
    if not after.startswith("tokens.into_iter().next()}else{next_tokens.next()};"):
        raise ExtractError("lr longest-match block: what follows the range changed (expected `tokens.into_iter().next() } else { next_tokens.next() };`): %r" % after[:80])
    block_text = src.text[t[lo].s:t[hi - 1].e]
    used = set(idents(src, lo, hi))
    outside = bound_names_outside(src, fn, lo, hi)
    inside = bound_names_inside(src, lo, hi)
    free = sorted(((outside & used) - inside) | ({"self"} if "self" in used else set()))
    if free != ["tokens"]:
        raise ExtractError(f"lr longest-match block: free variables changed: now {free}, declared ['tokens']")
    sha = hashlib.sha256(block_text.encode()).hexdigest()[:16]
    meta = {"lift": "lr_longest_block", "file": rel, "lines": [src.line_of(t[lo].s), src.line_of(t[hi - 1].e)], "sha256_16": sha, "free_variables": ["tokens"],
            "note": "`tokens` is the local `let mut tokens = next_tokens.collect::<Vec<_>>()` (a Vec<Token<'i, I, TK>>) of the source and a `&mut Vec<Token<'i, I, TK>>` parameter here; "
                    "the range is the whole longest-match filter of the LR parser: it is guarded by `if D::longest_match()`, preceded by the collect and followed by "
                    "`tokens.into_iter().next()` (all three pinned: a change is exit 2); the generated function is a free generic function (the range does not mention self)"}
    header = "fn lr_longest_block<'i, I: Input + ?Sized, TK>(tokens: &mut Vec<Token<'i, I, TK>>) {\n                "
    return header + block_text + "\n}\n", meta


def glr_disamb_block_range(repo):
    rel = "rustemo/src/glr/parser.rs"
    src = rsx.Source(os.path.join(repo, rel))
    imp = src.find_impl(r"^impl < 'i , S , L , P , TK , NTK , D , I , B > GlrParser", has="find_lookaheads")
    fn = imp.child("fn", "find_lookaheads")
    t = src.toks
    lo, hi = _if_tokens_block(src, fn, "glr disambiguation block")
    guard = "".join(x.text for x in t[max(fn.body_open, lo - 12):lo] if x.kind not in ("ws", "comment"))
    if not guard.endswith("if!tokens.is_empty(){"):
        raise ExtractError("glr disambiguation block: no longer the first statement of `if !tokens.is_empty() {`: %r" % guard[-40:])
    after = "".join(x.text for x in t[hi:hi + 8] if x.kind not in ("ws", "comment"))
    if not after.startswith("returntokens;"):
        raise ExtractError("glr disambiguation block: no longer followed by `return tokens;`: %r" % after[:40])
    block_text = src.text[t[lo].s:t[hi - 1].e]
    used = set(idents(src, lo, hi))
    outside = bound_names_outside(src, fn, lo, hi)
    inside = bound_names_inside(src, lo, hi)
    free = sorted(((outside & used) - inside) | ({"self"} if "self" in used else set()))
    if free != ["tokens"]:
        raise ExtractError(f"glr disambiguation block: free variables changed: now {free}, declared ['tokens']")
    sha = hashlib.sha256(block_text.encode()).hexdigest()[:16]
    meta = {"lift": "glr_disamb_block", "file": rel, "lines": [src.line_of(t[lo].s), src.line_of(t[hi - 1].e)], "sha256_16": sha, "free_variables": ["tokens"],
            "note": "`tokens` is the local `let mut tokens: Vec<_> = self.lexer.next_tokens(..).collect()` of the source and a `&mut Vec<Token<'i, I, TK>>` parameter here; "
                    "the range is the first statement of `if !tokens.is_empty() {` and is followed by `return tokens;` (pinned); the generated function is a free "
                    "generic function over the impl's D (the range calls D::longest_match() / D::grammar_order() and does not mention self)"}
    header = ("fn glr_disamb_block<'i, I: Input + ?Sized, S, P, TK, NTK, D: ParserDefinition<S, P, TK, NTK>>(tokens: &mut Vec<Token<'i, I, TK>>) {\n                ")
    return header + block_text + "\n}\n", meta


VERUS_LIFTS["lr_longest_block"] = lr_longest_block_range
VERUS_LIFTS["glr_disamb_block"] = glr_disamb_block_range


# ---------------------------------------------------------------------------
# REDUCE placement (C01): the statement `for follow_symbol in item.follow.borrow().iter() { .. }` of
# LRTable::calculate_reductions -- for every lookahead of a reducing item, the cell of that terminal receives the
# reduction (directly if empty, through conflict resolution otherwise).  Contains the conflict_block range.

REDUCE_DECLARED = ["aug_symbols", "item", "self", "state"]
ITEM_LOOP_HEAD = "foriteminstate.items.iter().filter(|x|x.is_reducing()){"


def loop_exits_to_returns(src, lo, hi):
    """text of the token range [lo, hi) -- a whole loop body -- with the `continue` / `break` of THAT loop (the ones not nested in
    a loop inside the range) replaced by `return false` / `return true`: the lifted function's result says whether the iteration
    left the loop early.  Returns (text, number of continues replaced, number of breaks replaced)."""
    t = src.toks
    inner = []  # token ranges of the bodies of loops nested in the range
    i = lo
    while i < hi:
        if t[i].kind == "ident" and t[i].text in ("for", "while", "loop") and t[src.prev_sig(i)].text != ".":
            j, depth = i + 1, 0
            while j < hi:
                if t[j].text in ("(", "["):
                    depth += 1
                elif t[j].text in (")", "]"):
                    depth -= 1
                elif t[j].text == "{" and depth == 0:
                    break
                j += 1
            if j < hi:
                inner.append((j, src.match(j)))
        i += 1
    out, nc, nb = [], 0, 0
    for i in range(lo, hi):
        tok = t[i]
        nested = any(a < i < b for a, b in inner)
        if tok.kind == "ident" and tok.text in ("continue", "break") and not nested:
            nxt = t[src.sig(i + 1)].text
            if nxt not in (";", "}"):
                raise ExtractError("reduce block: labelled or valued `%s` in the item loop body" % tok.text)
            out.append("return false" if tok.text == "continue" else "return true")
            nc += tok.text == "continue"
            nb += tok.text == "break"
        else:
            out.append(tok.text)
    return "".join(out), nc, nb


def reduce_block_range(repo):
    rel = "rustemo-compiler/src/table/mod.rs"
    src = rsx.Source(os.path.join(repo, rel))
    imp = src.find_impl(r"^impl < 'g , 's > LRTable < 'g , 's >", has="calculate_reductions")
    fn = imp.child("fn", "calculate_reductions")
    t = src.toks
    # the range is the WHOLE body of the item loop `for item in state.items.iter().filter(|x| x.is_reducing()) { .. }`
    sig_idx = [i for i in range(fn.body_open + 1, fn.body_close) if t[i].kind not in ("ws", "comment")]
    flat = ""
    ends = []  # ends[k] = token index whose text ends at flat offset k
    for i in sig_idx:
        flat += t[i].text
        ends.append((len(flat), i))
    if flat.count(ITEM_LOOP_HEAD) != 1:
        raise ExtractError("reduce block: expected exactly one item loop `for item in state.items.iter().filter(|x| x.is_reducing()) {` in calculate_reductions")
    off = flat.index(ITEM_LOOP_HEAD) + len(ITEM_LOOP_HEAD)
    k = next(i for (e, i) in ends if e == off)  # the `{` of the item loop body
    if t[k].text != "{":
        raise ExtractError("reduce block: unexpected token at the item loop body")
    hi = src.match(k)
    lo = src.sig(k + 1)
    head = flat[:off]
    if head.count("forstatein&mutself.states{") != 1 or not head.endswith("forstatein&mutself.states{" + ITEM_LOOP_HEAD):
        raise ExtractError("reduce block: the item loop is no longer the first statement of `for state in &mut self.states {`: %r" % head[-120:])
    if "for" not in [x.text for x in t[lo:hi] if x.kind == "ident"]:
        raise ExtractError("reduce block: no loop over the lookaheads inside the range")
    block_text, n_cont, n_brk = loop_exits_to_returns(src, lo, hi)
    outside = bound_names_outside(src, fn, lo, hi)
    used = set(idents(src, lo, hi))
    inside = bound_names_inside(src, lo, hi)
    free = sorted(((outside & used) - inside) | ({"self"} if "self" in used else set()))
    if free != REDUCE_DECLARED:
        raise ExtractError(f"reduce block: free variables changed: now {free}, declared {REDUCE_DECLARED}")
    sha = hashlib.sha256(src.text[t[lo].s:t[hi].s].encode()).hexdigest()[:16]
    a, z = src.line_of(t[lo].s), src.line_of(t[hi].s)
    meta = {"lift": "reduce_block", "file": rel, "lines": [a, z], "sha256_16": sha, "free_variables": REDUCE_DECLARED,
            "loop_exits_rewritten": {"continue -> return false": int(n_cont), "break -> return true": int(n_brk)},
            "note": "the WHOLE body of the item loop `for item in state.items.iter().filter(|x| x.is_reducing()) { .. }` of calculate_reductions, verbatim except that "
                    "the `continue` / `break` statements of that loop (not those of loops nested in the range) become `return false` / `return true` and `false` is the "
                    "function's tail: the result says whether the iteration left the item loop early.  `state` is the loop variable of `for state in &mut self.states` "
                    "(a `&mut LRState`), `item` the loop variable of the item loop (a `&LRItem` borrowed from state.items while state.actions is written: disjoint fields "
                    "in the source, separate parameters here), `aug_symbols` the vector built in front of the loops.  The range contains the conflict_block range."}
    header = ("impl<'g, 's> LRTable<'g, 's> {\n    fn reduce_block(\n        &self,\n        state: &mut LRState<'g>,\n        item: &LRItem,\n"
              "        aug_symbols: &Vec<SymbolIndex>,\n    ) -> bool {\n                ")
    return header + block_text + "\n                false\n    }\n}\n", meta


VERUS_LIFTS["reduce_block"] = reduce_block_range


# ---------------------------------------------------------------------------
# the list of augmented symbols (C01, ACCEPT): the statements of calculate_reductions in front of `for state in &mut self.states`

def aug_block_range(repo):
    rel = "rustemo-compiler/src/table/mod.rs"
    src = rsx.Source(os.path.join(repo, rel))
    imp = src.find_impl(r"^impl < 'g , 's > LRTable < 'g , 's >", has="calculate_reductions")
    fn = imp.child("fn", "calculate_reductions")
    t = src.toks
    lo = src.sig(fn.body_open + 1)
    # the range ends in front of the first `for` statement at the top level of the body
    depth, hi = 0, None
    for i in range(fn.body_open + 1, fn.body_close):
        if t[i].text in rsx.OPEN:
            depth += 1
        elif t[i].text in rsx.CLOSE:
            depth -= 1
        elif depth == 0 and t[i].kind == "ident" and t[i].text == "for":
            hi = i
            break
    if hi is None or hi == lo:
        raise ExtractError("aug block: no statements in front of the loop over the states")
    follow = "".join(x.text for x in t[hi:hi + 30] if x.kind not in ("ws", "comment"))
    if not follow.startswith("forstatein&mutself.states{"):
        raise ExtractError("aug block: the first loop of calculate_reductions is no longer `for state in &mut self.states`")
    block_text = src.text[t[lo].s:t[hi].s]
    used = set(idents(src, lo, hi))
    inside = bound_names_inside(src, lo, hi)
    used_after = set(idents(src, hi, fn.body_close))
    live_out = sorted(inside & used_after)
    if live_out != ["aug_symbols"]:
        raise ExtractError(f"aug block: the variables the range hands to the loops changed: now {live_out}, declared ['aug_symbols']")
    outside = bound_names_outside(src, fn, lo, hi)
    free = sorted(((outside & used) - inside) | ({"self"} if "self" in used else set()))
    if free != ["self"]:
        raise ExtractError(f"aug block: free variables changed: now {free}, declared ['self']")
    sha = hashlib.sha256(block_text.encode()).hexdigest()[:16]
    meta = {"lift": "aug_block", "file": rel, "lines": [src.line_of(t[lo].s), src.line_of(t[hi].s)], "sha256_16": sha, "free_variables": ["self"],
            "note": "the statements of calculate_reductions in front of `for state in &mut self.states` (pinned), verbatim; the only variable they hand to the "
                    "loops, `aug_symbols`, is the function's result (appended as its tail)"}
    header = "impl<'g, 's> LRTable<'g, 's> {\n    fn aug_block(&self) -> Vec<SymbolIndex> {\n        "
    return header + block_text + "aug_symbols\n    }\n}\n", meta


VERUS_LIFTS["aug_block"] = aug_block_range


# ---------------------------------------------------------------------------
# SHIFT / GOTO placement (C01): the statement `if self.grammar.is_nonterm(target_state_symbol) { gotos.. } else { actions.. }`
# of LRTable::calc_states

GOTO_DECLARED = ["new_state", "self", "state", "target_state_idx", "target_state_symbol"]
GOTO_START = "if self.grammar.is_nonterm(target_state_symbol) {"


def goto_block_range(repo):
    rel = "rustemo-compiler/src/table/mod.rs"
    src = rsx.Source(os.path.join(repo, rel))
    imp = src.find_impl(r"^impl < 'g , 's > LRTable < 'g , 's >", has="calc_states")
    fn = imp.child("fn", "calc_states")
    t = src.toks
    body_s = t[fn.body_open].e
    body = src.text[body_s:t[fn.body_close].s]
    if body.count(GOTO_START) != 1:
        raise ExtractError("goto block: anchor `%s` not found exactly once in calc_states" % GOTO_START)
    lo_off = body_s + body.index(GOTO_START)
    lo = next(i for i in range(fn.body_open, fn.body_close) if t[i].s == lo_off)
    # the statement: if <cond> { .. } [else { .. }]
    k = lo
    while t[k].text != "{":
        k += 1
    hi = src.match(k) + 1
    nxt = src.sig(hi)
    if t[nxt].text == "else":
        k = src.sig(nxt + 1)
        if t[k].text != "{":
            raise ExtractError("goto block: `else if` chain where a two-armed if was declared")
        hi = src.match(k) + 1
    else:
        raise ExtractError("goto block: the statement has lost its else arm")
    block_text = src.text[t[lo].s:t[hi - 1].e]
    outside = bound_names_outside(src, fn, lo, hi)
    used = set(idents(src, lo, hi))
    inside = bound_names_inside(src, lo, hi)
    free = sorted(((outside & used) - inside) | ({"self"} if "self" in used else set()))
    if free != GOTO_DECLARED:
        raise ExtractError(f"goto block: free variables changed: now {free}, declared {GOTO_DECLARED}")
    sha = hashlib.sha256(block_text.encode()).hexdigest()[:16]
    meta = {"lift": "goto_block", "file": rel, "lines": [src.line_of(t[lo].s), src.line_of(t[hi - 1].s)], "sha256_16": sha, "free_variables": GOTO_DECLARED,
            "note": "the two-armed `if self.grammar.is_nonterm(target_state_symbol) { .. } else { .. }` statement of calc_states, verbatim: `state` is the state popped "
                    "from the queue (a local LRState, `&mut` here), `new_state` the loop variable of `for mut new_state in new_states` (read only: `&` here), "
                    "`target_state_symbol` is `new_state.symbol` and `target_state_idx` the index of the state the transition leads to (both bound in front of the range)"}
    header = ("impl<'g, 's> LRTable<'g, 's> {\n    fn goto_block(\n        &self,\n        state: &mut LRState<'g>,\n        new_state: &LRState<'g>,\n"
              "        target_state_symbol: SymbolIndex,\n        target_state_idx: StateIndex,\n    ) {\n                ")
    return header + block_text + "\n    }\n}\n", meta


VERUS_LIFTS["goto_block"] = goto_block_range


# ---------------------------------------------------------------------------
# ACCEPT on STOP (C01): the statement `for &symbol in per_next_symbol.keys() { if symbol == stop_index { .. break; } }` of calc_states

ACCEPT_DECLARED = ["per_next_symbol", "self", "state"]
ACCEPT_START = "for &symbol in per_next_symbol.keys() {"


def accept_block_range(repo):
    rel = "rustemo-compiler/src/table/mod.rs"
    src = rsx.Source(os.path.join(repo, rel))
    imp = src.find_impl(r"^impl < 'g , 's > LRTable < 'g , 's >", has="calc_states")
    fn = imp.child("fn", "calc_states")
    t = src.toks
    body_s = t[fn.body_open].e
    body = src.text[body_s:t[fn.body_close].s]
    if body.count(ACCEPT_START) != 1:
        raise ExtractError("accept block: anchor `%s` not found exactly once in calc_states" % ACCEPT_START)
    lo_off = body_s + body.index(ACCEPT_START)
    lo = next(i for i in range(fn.body_open, fn.body_close) if t[i].s == lo_off)
    k = lo
    while t[k].text != "{":
        k += 1
    hi = src.match(k) + 1
    block_text = src.text[t[lo].s:t[hi - 1].e]
    outside = bound_names_outside(src, fn, lo, hi)
    used = set(idents(src, lo, hi))
    inside = bound_names_inside(src, lo, hi)
    free = sorted(((outside & used) - inside) | ({"self"} if "self" in used else set()))
    if free != ACCEPT_DECLARED:
        raise ExtractError(f"accept block: free variables changed: now {free}, declared {ACCEPT_DECLARED}")
    # the map the loop reads is the one the preceding statement builds from the state's items (pinned)
    head = "".join(x.text for x in t[fn.body_open + 1:lo] if x.kind not in ("ws", "comment"))
    if not head.endswith("letper_next_symbol=state.group_per_next_symbol();"):
        raise ExtractError("accept block: the statement in front of the range is no longer `let per_next_symbol = state.group_per_next_symbol();`")
    sha = hashlib.sha256(block_text.encode()).hexdigest()[:16]
    meta = {"lift": "accept_block", "file": rel, "lines": [src.line_of(t[lo].s), src.line_of(t[hi - 1].s)], "sha256_16": sha, "free_variables": ACCEPT_DECLARED,
            "note": "the statement `for &symbol in per_next_symbol.keys() { .. }` of calc_states, verbatim: `state` is the state popped from the queue (a local LRState, "
                    "`&mut` here), `per_next_symbol` the map `state.group_per_next_symbol()` returned in the statement in front of the range (pinned; a local "
                    "BTreeMap, `&` here)"}
    header = ("impl<'g, 's> LRTable<'g, 's> {\n    fn accept_block(\n        &self,\n        state: &mut LRState<'g>,\n"
              "        per_next_symbol: &BTreeMap<SymbolIndex, Vec<ItemIndex>>,\n    ) {\n            ")
    return header + block_text + "\n    }\n}\n", meta


VERUS_LIFTS["accept_block"] = accept_block_range


# ---------------------------------------------------------------------------
# TokenIterator::next (C06): the whole body of <TokenIterator as Iterator>::next as an inherent method, so that it can
# carry a precondition (Verus: a trait method implementation cannot declare `requires`).

def token_next_block_range(repo):
    rel = "rustemo/src/lexer.rs"
    src = rsx.Source(os.path.join(repo, rel))
    imp = src.find_impl(r"^impl < 'i , TK , TR > Iterator for TokenIterator < 'i , TR , TK >")
    fn = imp.child("fn", "next")
    t = src.toks
    sig = "".join(x.text for x in t[fn.kw:fn.body_open] if x.kind not in ("ws", "comment"))
    if sig != "fnnext(&mutself)->Option<Self::Item>":
        raise ExtractError("token_next block: signature of TokenIterator::next changed: %r" % sig)
    item_ty = re.sub(r"\s+", "", imp.child("type", "Item").text())
    if item_ty != "typeItem=Token<'i,str,TK>;":
        raise ExtractError("token_next block: associated type Item changed: %r" % item_ty)
    head = src.text[t[imp.start].s:t[imp.body_open].s]
    m = re.match(r"\s*impl\s*(<[^>]*>)\s*Iterator\s+for\s+(TokenIterator\s*<[^>]*>)\s*where(.*)$", head, re.S)
    if not m:
        raise ExtractError("token_next block: unexpected impl header shape")
    generics, self_ty, where = m.group(1), m.group(2), m.group(3).rstrip()
    block_text = src.text[t[fn.body_open].e:t[fn.body_close].s]
    used = set(idents(src, fn.body_open + 1, fn.body_close))
    inside = bound_names_inside(src, fn.body_open + 1, fn.body_close)
    if "self" not in used:
        raise ExtractError("token_next block: body does not mention self")
    sha = hashlib.sha256(block_text.encode()).hexdigest()[:16]
    meta = {"lift": "token_next_block", "file": rel, "lines": [src.line_of(t[fn.body_open].s), src.line_of(t[fn.body_close].e)], "sha256_16": sha,
            "free_variables": ["self"],
            "note": "the whole body of <TokenIterator as Iterator>::next, verbatim, as the body of an inherent method `next_body(&mut self) -> Option<Token<'i, str, TK>>` "
                    "(generics, self type and where-clause copied from the real impl header; `Self::Item` is `Token<'i, str, TK>`, checked): Verus does not let a trait "
                    "method implementation declare a precondition, and the search contract needs one (the iterator's bookkeeping agrees with its cursor)"}
    header = "impl%s %s\nwhere%s\n{\n    fn next_body(&mut self) -> Option<Token<'i, str, TK>> {" % (generics, self_ty, where)
    return header + block_text + "}\n}\n", meta


VERUS_LIFTS["token_next_block"] = token_next_block_range



# ---------------------------------------------------------------------------
# Production meta-data (C05 / C09): the statements of GrammarBuilder::extract_productions_and_symbols from the loop that
# inherits rule-level meta-data to the `nopse` mapping.

META_DECLARED = ["new_production", "rule"]


def meta_block_range(repo):
    rel = "rustemo-compiler/src/grammar/builder.rs"
    src = rsx.Source(os.path.join(repo, rel))
    imp = src.find_impl(r"^impl GrammarBuilder", has="extract_productions_and_symbols")
    fn = imp.child("fn", "extract_productions_and_symbols")
    t = src.toks
    body_s = t[fn.body_open].e
    body = src.text[body_s:t[fn.body_close].s]
    a_lit = "for (key, data) in &rule.meta {"
    z_lit = "self.productions.push(new_production);"
    if body.count(a_lit) != 1 or body.count(z_lit) != 1:
        raise ExtractError("meta block: anchors `%s` / `%s` not found exactly once" % (a_lit, z_lit))
    lo_off = body_s + body.index(a_lit)
    hi_off = body_s + body.index(z_lit)
    lo = next(i for i in range(fn.body_open, fn.body_close) if t[i].s == lo_off)
    hi = next(i for i in range(fn.body_open, fn.body_close) if t[i].s == hi_off)
    before = "".join(x.text for x in t[max(fn.body_open, lo - 30):lo] if x.kind not in ("ws", "comment"))
    if not before.endswith("meta:production.meta,..Production::default()};"):
        raise ExtractError("meta block: the construction of new_production in front of the range changed: %r" % before[-70:])
    block_text = src.text[lo_off:t[src.prev_sig(hi)].e]
    outside = bound_names_outside(src, fn, lo, hi)
    used = set(idents(src, lo, hi))
    inside = bound_names_inside(src, lo, hi)
    free = sorted(((outside & used) - inside) | ({"self"} if "self" in used else set()))
    if free != META_DECLARED:
        raise ExtractError(f"meta block: free variables changed: now {free}, declared {META_DECLARED}")
    sha = hashlib.sha256(block_text.encode()).hexdigest()[:16]
    meta = {"lift": "meta_block", "file": rel, "lines": [src.line_of(lo_off), src.line_of(hi_off)], "sha256_16": sha, "free_variables": META_DECLARED,
            "note": "`rule` is the loop variable of `for rule in rules` (a GrammarRule by value; the range reads rule.meta) and a `&GrammarRule` parameter here; "
                    "`new_production` is the local `let mut new_production = Production { .., meta: production.meta, ..Production::default() }` (pinned) and a "
                    "`&mut Production` parameter here; the generated function is a free function (the range does not mention self)"}
    header = "fn meta_block(rule: &GrammarRule, new_production: &mut Production) {\n                "
    return header + block_text + "\n}\n", meta


VERUS_LIFTS["meta_block"] = meta_block_range


# ---------------------------------------------------------------------------
# GLR lookahead search (C06 / C12 / C15): GlrParser::find_lookaheads from `let expected_tokens = ..` to its end -- everything
# after `let head = gss.head_mut(head);` (GssGraph wraps a petgraph Graph, a type this single-file unit cannot even name).

GLRLA_DECLARED = ["head", "input", "self"]


def glr_lookaheads_block_range(repo):
    rel = "rustemo/src/glr/parser.rs"
    src = rsx.Source(os.path.join(repo, rel))
    imp = src.find_impl(r"^impl < 'i , S , L , P , TK , NTK , D , I , B > GlrParser", has="find_lookaheads")
    fn = imp.child("fn", "find_lookaheads")
    t = src.toks
    sig = "".join(x.text for x in t[fn.kw:fn.body_open] if x.kind not in ("ws", "comment"))
    if sig != "fnfind_lookaheads(&self,gss:&mutGssGraph<'i,I,S,P,TK>,head:NodeIndex,input:&'iI,)->Vec<Token<'i,I,TK>>":
        raise ExtractError("glr lookaheads block: signature of find_lookaheads changed: %r" % sig)
    first = "".join(x.text for x in t[fn.body_open + 1:fn.body_open + 20] if x.kind not in ("ws", "comment"))
    if not first.startswith("lethead=gss.head_mut(head);letexpected_tokens"):
        raise ExtractError("glr lookaheads block: the first statements of find_lookaheads changed: %r" % first[:80])
    lo = next(i for i in range(fn.body_open + 1, fn.body_close) if t[i].text == ";") + 1
    lo = src.sig(lo)
    hi = fn.body_close
    block_text = src.text[t[lo].s:t[hi].s]
    used = set(idents(src, lo, hi))
    if "gss" in used:
        raise ExtractError("glr lookaheads block: the range mentions gss")
    outside = bound_names_outside(src, fn, lo, hi)
    inside = bound_names_inside(src, lo, hi)
    free = sorted(((outside & used) - inside) | ({"self"} if "self" in used else set()))
    if free != GLRLA_DECLARED:
        raise ExtractError(f"glr lookaheads block: free variables changed: now {free}, declared {GLRLA_DECLARED}")
    head = src.text[t[imp.start].s:t[imp.body_open].s]
    m = re.match(r"\s*impl\s*(<[^>]*>)\s*(GlrParser\s*<[^>]*>)\s*where(.*)$", head, re.S)
    if not m:
        raise ExtractError("glr lookaheads block: unexpected impl header shape")
    generics, self_ty, where = m.group(1), m.group(2), m.group(3).rstrip()
    sha = hashlib.sha256(block_text.encode()).hexdigest()[:16]
    meta = {"lift": "glr_lookaheads_block", "file": rel, "lines": [src.line_of(t[lo].s), src.line_of(t[hi].s)], "sha256_16": sha, "free_variables": GLRLA_DECLARED,
            "note": "the body of GlrParser::find_lookaheads after its first statement `let head = gss.head_mut(head);` (pinned): `head` is that local, a `&mut GssHead`, "
                    "and a parameter of the same type here; `gss` (a GssGraph over a petgraph Graph) is not mentioned by the range"}
    header = ("impl%s %s\nwhere%s\n{\n    fn glr_lookaheads_block(\n        &self,\n        head: &mut GssHead<'i, I, S, TK>,\n        input: &'i I,\n"
              "    ) -> Vec<Token<'i, I, TK>> {\n        ") % (generics, self_ty, where)
    return header + block_text + "}\n}\n", meta


VERUS_LIFTS["glr_lookaheads_block"] = glr_lookaheads_block_range


def write_if_changed(path, text):
    """generated files are rewritten on every run; an unchanged file is left alone (its mtime too: no needless recompilation, and
    two checks running side by side on the same tree never see each other's half-written file)"""
    try:
        if open(path).read() == text:
            return
    except OSError:
        pass
    tmp = path + ".tmp%d" % os.getpid()
    open(tmp, "w").write(text)
    os.replace(tmp, path)


def lift_conflict_block(repo, gen):
    block_text, then_body, meta = conflict_block_range(repo)
    rel, declared, sha = meta["file"], meta["free_variables"], meta["sha256_16"]
    a, z = meta["lines"]
    out = f"""// GENERATED by /verif/tools/lift.py on every run -- do not edit.  BLOCK LIFT (not an extraction for Verus):
// lines {a}-{z} of {rel} (sha256/16 {sha}), the `else` arm of `if actions.is_empty()` in
// LRTable::calculate_reductions, copied verbatim into methods whose receiver/parameters are exactly the
// free variables of the range: {', '.join(declared)}.
//
// The statements are compiled TWICE, from the same text:
//  * LiftCtx::conflict_block   against the REAL types (LRState, LRItem, Production, Terminal, Settings, Grammar);
//    constructing those values costs CBMC about a minute per case (String-keyed BTreeMaps), so this copy is used for
//    a few smoke cases only;
//  * RecCtx::conflict_block    against field-compatible RECORD types declared below (same field names, same field
//    types, plain data); this copy carries the exhaustive enumeration.  If the range ever reads a field that is not
//    declared here the record copy stops compiling, which is exit 2 (undecided), never a pass.
pub(super) struct LiftCtx<'g, 's> {{
    pub settings: &'s Settings,
    pub grammar: &'g Grammar,
}}
impl<'g, 's> LiftCtx<'g, 's> {{
    #[allow(clippy::all)]
    pub(super) fn conflict_block(
        &self,
        state: &LRState<'g>,
        item: &LRItem,
        prod: &crate::grammar::Production,
        follow_term: &Terminal,
        actions: &mut Vec<Action>,
        new_reduce: Action,
    ) {{
{block_text}
    }}
    /// the `then` arm, for completeness: `{then_body}`
    pub(super) fn no_conflict(actions: &mut Vec<Action>, new_reduce: Action) {{
        actions.push(new_reduce.clone());
    }}
}}

pub(super) struct RecSettings {{
    pub prefer_shifts: bool,
    pub prefer_shifts_over_empty: bool,
    pub parser_algo: ParserAlgo,
}}
pub(super) struct RecProd {{
    pub prio: Priority,
    pub assoc: Associativity,
    pub nops: bool,
    pub nopse: bool,
    pub rhs: Vec<()>,
}}
pub(super) struct RecGrammar {{
    pub productions: ProdVec<RecProd>,
}}
pub(super) struct RecTerm {{
    pub idx: TermIndex,
    pub assoc: Associativity,
}}
pub(super) struct RecState {{
    pub max_prior_for_term: BTreeMap<TermIndex, Priority>,
}}
pub(super) struct RecItem {{
    pub prod: ProdIndex,
    pub prod_len: usize,
    pub position: usize,
}}
pub(super) struct RecCtx<'g, 's> {{
    pub settings: &'s RecSettings,
    pub grammar: &'g RecGrammar,
}}
impl<'g, 's> RecCtx<'g, 's> {{
    #[allow(clippy::all)]
    pub(super) fn conflict_block(
        &self,
        state: &RecState,
        item: &RecItem,
        prod: &RecProd,
        follow_term: &RecTerm,
        actions: &mut Vec<Action>,
        new_reduce: Action,
    ) {{
{block_text}
    }}
}}
"""
    os.makedirs(gen, exist_ok=True)
    write_if_changed(os.path.join(gen, "conflict_block.rs"), out)
    return meta


# ---------------------------------------------------------------------------
# sort_terminals (C06): the statements of the per-state body of LRTable::sort_terminals from `let term_prio =` to
# `state.sorted_terminals = sorted_terminals;` -- the ordering (priority*1000 + specificity) and the finish flags.
# Kani block lift only (Verus rejects `sort_by` with a capturing closure and `|=` on bool).

SORT_DECLARED = ["self", "state", "terminals"]
SORT_PREFIX = ("letmutterminals=state.actions.iter().enumerate().filter(|(_,actions)|!actions.is_empty())"
               ".map(|(idx,_)|self.grammar.term_by_index(TermIndex(idx))).collect::<Vec<_>>();")


def lift_sort_block(repo, gen):
    rel = "rustemo-compiler/src/table/mod.rs"
    src = rsx.Source(os.path.join(repo, rel))
    imp = src.find_impl(r"^impl < 'g , 's > LRTable < 'g , 's >", has="sort_terminals")
    fn = imp.child("fn", "sort_terminals")
    t = src.toks
    body_s = t[fn.body_open].e
    body = src.text[body_s:t[fn.body_close].s]
    a_lit, z_lit = "let term_prio =", "state.sorted_terminals = sorted_terminals;"
    if body.count(a_lit) != 1 or body.count(z_lit) != 1:
        raise ExtractError("sort block: anchors `let term_prio =` / `state.sorted_terminals = sorted_terminals;` not found exactly once")
    lo_off = body_s + body.index(a_lit)
    hi_off = body_s + body.index(z_lit) + len(z_lit)
    lo = next(i for i in range(fn.body_open, fn.body_close) if t[i].s == lo_off)
    hi = next(i for i in range(fn.body_open, fn.body_close + 1) if t[i].s >= hi_off)
    head = "".join(x.text for x in t[fn.body_open + 1:lo] if x.kind not in ("ws", "comment"))
    if head != "forstatein&mutself.states{" + SORT_PREFIX:
        raise ExtractError("sort block: the statements in front of the range changed: %r" % head[:200])
    tail = "".join(x.text for x in t[hi:fn.body_close] if x.kind not in ("ws", "comment"))
    if tail != "}":
        raise ExtractError("sort block: statements after the range: %r" % tail[:80])
    block_text = src.text[lo_off:hi_off]
    outside = bound_names_outside(src, fn, lo, hi)
    used = set(idents(src, lo, hi))
    inside = bound_names_inside(src, lo, hi)
    free = sorted(((outside & used) - inside) | ({"self"} if "self" in used else set()))
    if free != SORT_DECLARED:
        raise ExtractError(f"sort block: free variables changed: now {free}, declared {SORT_DECLARED}")
    sha = hashlib.sha256(block_text.encode()).hexdigest()[:16]
    a, z = src.line_of(lo_off), src.line_of(hi_off)
    out = f"""// GENERATED by /verif/tools/lift.py on every run -- do not edit.  BLOCK LIFT:
// lines {a}-{z} of {rel} (sha256/16 {sha}): the statements of the per-state body of LRTable::sort_terminals from
// `let term_prio =` to `state.sorted_terminals = sorted_terminals;`, verbatim, as a method whose receiver/parameters are
// exactly the free variables of the range: {', '.join(SORT_DECLARED)}.  `terminals` is a local Vec<&Terminal> of the
// source (the terminals that have actions in the state -- computed in front of the range, NOT part of it) and a by-value
// parameter here; `self` and `state` are field-compatible RECORD types (the range reads
// self.settings.lexical_disamb_most_specific and assigns state.sorted_terminals); Terminal is the real type.
pub(super) struct SortSettings {{
    pub lexical_disamb_most_specific: bool,
}}
pub(super) struct SortState {{
    pub sorted_terminals: Vec<(TermIndex, bool)>,
}}
pub(super) struct SortCtx<'s> {{
    pub settings: &'s SortSettings,
}}
impl<'s> SortCtx<'s> {{
    #[allow(clippy::all)]
    pub(super) fn sort_block(&self, mut terminals: Vec<&Terminal>, state: &mut SortState) {{
            {block_text}
    }}
}}
"""
    os.makedirs(gen, exist_ok=True)
    write_if_changed(os.path.join(gen, "sort_block.rs"), out)
    return {"lift": "sort_block", "file": rel, "lines": [a, z], "sha256_16": sha, "free_variables": SORT_DECLARED}


def lift_cli_mapping(repo, gen):
    rel = "rustemo-compiler/src/main.rs"
    src = rsx.Source(os.path.join(repo, rel))
    fn = src.find("fn", "main")
    t = src.toks
    body = src.text[t[fn.body_open].e:t[fn.body_close].s]
    start_lit = "let mut settings = Settings::new()"
    end_lit = "let result = if cli.grammar_file_or_dir.is_file()"
    if body.count(start_lit) != 1 or body.count(end_lit) != 1:
        raise ExtractError("cli mapping: anchors `let mut settings = Settings::new()` / `let result = if cli.grammar_file_or_dir.is_file()` not found exactly once")
    s0 = body.index(start_lit)
    e0 = body.index(end_lit)
    pre = body[:s0]
    pre_norm = re.sub(r"\s+", "", re.sub(r"//[^\n]*", "", pre))
    if pre_norm != "letcli=Cli::parse();":
        raise ExtractError(f"cli mapping: statements before the range changed: {pre_norm!r}")
    block = body[s0:e0]
    # free variables: only `cli`
    sub = rsx.Source(rel + "#range", text=block)
    used = set(x.text for x in sub.toks if x.kind == "ident")
    if "cli" not in used or "self" in used:
        raise ExtractError("cli mapping: unexpected free variables")
    sha = hashlib.sha256(block.encode()).hexdigest()[:16]
    a = src.line_of(t[fn.body_open].e + s0)
    z = src.line_of(t[fn.body_open].e + e0)
    # the harness must not execute Settings::new()/trace (environment access); the range is split at `Settings::new()`
    if block.count("Settings::new()") != 1:
        raise ExtractError("cli mapping: Settings::new() must appear exactly once")
    block2 = block.replace("Settings::new()", "base", 1)
    out = f"""// GENERATED by /verif/tools/lift.py on every run -- do not edit.  BLOCK LIFT:
// lines {a}-{z} of {rel} (sha256/16 {sha}): the statements of main() from `let mut settings =` up to (not
// including) `let result =`, verbatim, except that the single occurrence of `Settings::new()` is replaced by the
// parameter `base` (Settings::default() reads environment variables, a foreign call Kani cannot model).
#[allow(clippy::all)]
fn lifted_cli_to_settings(cli: Cli, base: Settings) -> Settings {{
    {block2}
    settings
}}
"""
    os.makedirs(gen, exist_ok=True)
    write_if_changed(os.path.join(gen, "cli_mapping.rs"), out)
    return {"lift": "cli_mapping", "file": rel, "lines": [a, z], "sha256_16": sha, "free_variables": ["cli"]}


def generate_all(repo, gen):
    return [lift_conflict_block(repo, gen), lift_cli_mapping(repo, gen), lift_sort_block(repo, gen)]


if __name__ == "__main__":
    import json
    print(json.dumps(generate_all(sys.argv[1] if len(sys.argv) > 1 else "/repo", sys.argv[2] if len(sys.argv) > 2 else "/verif/build/gen"), indent=1))
