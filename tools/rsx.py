#!/usr/bin/env python3
"""rsx -- a small Rust-aware *text* extractor.

It never rewrites code on its own initiative.  It locates items (fn / struct /
enum / trait / impl / macro_rules) in a source file by tokenising the text
(strings, raw strings, chars vs lifetimes, nested comments, brace matching) and
copies item text verbatim into a piece table.  Every deviation from the source
text is a tagged piece: ("del", start, end, rule) or ("ins", text, rule).  The
closed list of rules is in DESIGN.md section 2.2; the piece table is what the
evidence file reports ("rules fired") and what `audit()` re-checks: the
concatenation of all "src" and "del" pieces of an item is byte-identical to the
item's text in the repository file.
"""
import hashlib
import re


class ExtractError(Exception):
    """Anchor lost / rule refused / unsupported construct: exit 2, never an alarm."""


class Tok:
    __slots__ = ("kind", "s", "e", "text")

    def __init__(self, kind, s, e, text):
        self.kind, self.s, self.e, self.text = kind, s, e, text

    def __repr__(self):
        return f"Tok({self.kind},{self.text!r})"


_ident_re = re.compile(r"(?:r#)?[A-Za-z_][A-Za-z0-9_]*")
_num_re = re.compile(r"\d[A-Za-z0-9_]*(?:\.\d[A-Za-z0-9_]*)?")
_ws_re = re.compile(r"\s+")
_rawstr_re = re.compile(r"b?r(#*)\"")


def tokenize(src):
    toks = []
    i, n = 0, len(src)
    while i < n:
        c = src[i]
        m = _ws_re.match(src, i)
        if m:
            toks.append(Tok("ws", i, m.end(), m.group()))
            i = m.end()
            continue
        if src.startswith("//", i):
            j = src.find("\n", i)
            j = n if j < 0 else j
            toks.append(Tok("comment", i, j, src[i:j]))
            i = j
            continue
        if src.startswith("/*", i):
            depth, j = 1, i + 2
            while j < n and depth:
                if src.startswith("/*", j):
                    depth += 1
                    j += 2
                elif src.startswith("*/", j):
                    depth -= 1
                    j += 2
                else:
                    j += 1
            toks.append(Tok("comment", i, j, src[i:j]))
            i = j
            continue
        m = _rawstr_re.match(src, i)
        if m:
            close = '"' + m.group(1)
            j = src.find(close, m.end())
            if j < 0:
                raise ExtractError("unterminated raw string")
            j += len(close)
            toks.append(Tok("string", i, j, src[i:j]))
            i = j
            continue
        if c == '"' or (c == "b" and i + 1 < n and src[i + 1] == '"'):
            j = i + (2 if c == "b" else 1)
            while j < n and src[j] != '"':
                j += 2 if src[j] == "\\" else 1
            j += 1
            toks.append(Tok("string", i, j, src[i:j]))
            i = j
            continue
        if c == "'" or (c == "b" and i + 1 < n and src[i + 1] == "'"):
            k = i + (1 if c == "b" else 0)
            # char literal or lifetime
            if k + 1 < n and src[k + 1] == "\\":
                j = k + 2
                while j < n and src[j] != "'":
                    j += 1
                j += 1
                toks.append(Tok("char", i, j, src[i:j]))
                i = j
                continue
            if k + 2 < n and src[k + 2] == "'":
                j = k + 3
                toks.append(Tok("char", i, j, src[i:j]))
                i = j
                continue
            m = _ident_re.match(src, k + 1)
            if m and c == "'":
                toks.append(Tok("lifetime", i, m.end(), src[i:m.end()]))
                i = m.end()
                continue
            raise ExtractError(f"cannot tokenize quote at offset {i}")
        m = _ident_re.match(src, i)
        if m:
            toks.append(Tok("ident", i, m.end(), m.group()))
            i = m.end()
            continue
        m = _num_re.match(src, i)
        if m:
            toks.append(Tok("num", i, m.end(), m.group()))
            i = m.end()
            continue
        toks.append(Tok("punct", i, i + 1, c))
        i += 1
    return toks


OPEN = {"{": "}", "(": ")", "[": "]"}
CLOSE = {v: k for k, v in OPEN.items()}
ITEM_KW = {"fn", "struct", "enum", "union", "trait", "impl", "mod", "type", "const", "static", "use", "macro_rules"}
QUALIFIERS = {"async", "unsafe", "extern", "default", "const"}


class Source:
    def __init__(self, path, text=None):
        self.path = path
        self.text = open(path).read() if text is None else text
        self.toks = tokenize(self.text)
        self._match = {}
        stack = []
        for idx, t in enumerate(self.toks):
            if t.kind != "punct":
                continue
            if t.text in OPEN:
                stack.append(idx)
            elif t.text in CLOSE:
                if not stack or self.toks[stack[-1]].text != CLOSE[t.text]:
                    raise ExtractError(f"{path}: unbalanced {t.text!r} at offset {t.s}")
                o = stack.pop()
                self._match[o] = idx
                self._match[idx] = o
        if stack:
            raise ExtractError(f"{path}: unbalanced brackets")

    def match(self, idx):
        return self._match[idx]

    def sig(self, idx):
        """next significant token index >= idx (skips ws/comments)"""
        n = len(self.toks)
        while idx < n and self.toks[idx].kind in ("ws", "comment"):
            idx += 1
        return idx

    def prev_sig(self, idx):
        idx -= 1
        while idx >= 0 and self.toks[idx].kind in ("ws", "comment"):
            idx -= 1
        return idx

    def line_of(self, off):
        return self.text.count("\n", 0, off) + 1

    # ---- item scanning -------------------------------------------------
    def items(self, lo=0, hi=None):
        """Yield Item objects found at nesting depth 0 of token range [lo, hi)."""
        toks = self.toks
        hi = len(toks) if hi is None else hi
        i = self.sig(lo)
        while i < hi:
            start = i
            attrs = []
            # attributes
            while i < hi and toks[i].text == "#":
                j = self.sig(i + 1)
                if toks[j].text == "!":
                    j = self.sig(j + 1)
                if toks[j].text != "[":
                    break
                attrs.append((i, self.match(j)))
                i = self.sig(self.match(j) + 1)
            vis_start = i
            if i < hi and toks[i].text == "pub":
                i = self.sig(i + 1)
                if toks[i].text == "(":
                    i = self.sig(self.match(i) + 1)
            while i < hi and toks[i].kind == "ident" and toks[i].text in QUALIFIERS:
                # `const NAME` (an item) vs `const fn`
                if toks[i].text == "const":
                    nxt = self.sig(i + 1)
                    if toks[nxt].text not in ("fn", "unsafe", "async", "extern"):
                        break
                if toks[i].text == "extern":
                    nxt = self.sig(i + 1)
                    if toks[nxt].kind == "string":
                        i = nxt
                i = self.sig(i + 1)
            if i >= hi:
                break
            kw = toks[i]
            if kw.kind != "ident" or kw.text not in ITEM_KW:
                # not an item start (e.g. a macro invocation at item level): skip to ; or matching }
                j = i
                while j < hi and toks[j].text not in (";",) and toks[j].text not in OPEN:
                    j += 1
                if j < hi and toks[j].text in OPEN:
                    j = self.match(j)
                    k = self.sig(j + 1)
                    if k < hi and toks[k].text == ";":
                        j = k
                i = self.sig(j + 1)
                continue
            kw_idx = i
            name = None
            body_open = body_close = None
            if kw.text == "macro_rules":
                j = self.sig(i + 1)  # !
                j = self.sig(j + 1)
                name = toks[j].text
                j = self.sig(j + 1)
                body_open, body_close = j, self.match(j)
                end = body_close
                k = self.sig(end + 1)
                if k < hi and toks[k].text == ";":
                    end = k
            elif kw.text in ("const", "static", "type", "use"):
                j = self.sig(i + 1)
                if toks[j].text == "mut":
                    j = self.sig(j + 1)
                name = toks[j].text
                while toks[j].text != ";":
                    if toks[j].text in OPEN:
                        j = self.match(j)
                    j += 1
                end = j
            else:
                j = self.sig(i + 1)
                if kw.text != "impl":
                    name = toks[j].text
                # find body or ';'
                while True:
                    t = toks[j]
                    if t.text == ";":
                        end = j
                        break
                    if t.text == "{":
                        body_open, body_close = j, self.match(j)
                        end = body_close
                        break
                    if t.text in ("(", "["):
                        j = self.match(j)
                    j += 1
                    if j >= hi:
                        raise ExtractError(f"{self.path}: runaway item at line {self.line_of(kw.s)}")
            yield Item(self, kw.text, name, start, vis_start, kw_idx, body_open, body_close, end, attrs)
            i = self.sig(end + 1)

    def find(self, kind, name, lo=0, hi=None):
        found = [it for it in self.items(lo, hi) if it.kind == kind and it.name == name]
        if len(found) != 1:
            raise ExtractError(f"{self.path}: expected exactly one `{kind} {name}`, found {len(found)}")
        return found[0]

    def find_impl(self, regex, lo=0, hi=None, has=None):
        rx = re.compile(regex)
        found = [it for it in self.items(lo, hi) if it.kind == "impl" and rx.search(it.header_norm())]
        if has:
            found = [it for it in found if any(c.kind == "fn" and c.name == has for c in it.children())]
        if len(found) != 1:
            raise ExtractError(
                f"{self.path}: expected exactly one impl matching /{regex}/, found {len(found)}: "
                + "; ".join(it.header_norm() for it in found))
        return found[0]


class Item:
    def __init__(self, src, kind, name, start, vis_start, kw, body_open, body_close, end, attrs):
        self.src, self.kind, self.name = src, kind, name
        self.start, self.vis_start, self.kw = start, vis_start, kw
        self.body_open, self.body_close, self.end = body_open, body_close, end
        self.attrs = attrs

    def text(self):
        t = self.src.toks
        return self.src.text[t[self.start].s:t[self.end].e]

    def sha(self):
        return hashlib.sha256(self.text().encode()).hexdigest()[:16]

    def lines(self):
        t = self.src.toks
        return (self.src.line_of(t[self.start].s), self.src.line_of(t[self.end].e))

    def header_norm(self):
        t = self.src.toks
        end = self.body_open if self.body_open is not None else self.end
        return " ".join(x.text for x in t[self.kw:end] if x.kind not in ("ws", "comment"))

    def children(self):
        if self.body_open is None:
            return []
        return list(self.src.items(self.body_open + 1, self.body_close))

    def child(self, kind, name):
        found = [c for c in self.children() if c.kind == kind and c.name == name]
        if len(found) != 1:
            raise ExtractError(
                f"{self.src.path}: expected exactly one `{kind} {name}` in `{self.header_norm()[:80]}`, found {len(found)}")
        return found[0]


# ---------------------------------------------------------------------------
# piece table


class Pieces:
    """Ordered edits over a token range of one Source."""

    def __init__(self, src, lo_tok, hi_tok):
        self.src = src
        self.lo = src.toks[lo_tok].s
        self.hi = src.toks[hi_tok].e
        self.dels = []  # (s, e, rule)
        self.ins = []  # (offset, order, text, rule)
        self.rules = []

    def delete(self, s, e, rule, note=""):
        if not (self.lo <= s <= e <= self.hi):
            raise ExtractError("delete outside item")
        for (a, b, _) in self.dels:
            if s < b and a < e:
                raise ExtractError(f"overlapping deletes ({rule})")
        self.dels.append((s, e, rule))
        self.rules.append({"rule": rule, "line": self.src.line_of(s), "dropped": self.src.text[s:e][:200], "note": note})

    def insert(self, off, text, rule, note=""):
        self.ins.append((off, len(self.ins), text, rule))
        if rule != "R-SPLICE" or note:
            self.rules.append({"rule": rule, "line": self.src.line_of(off), "inserted": text[:200], "note": note})

    def render(self):
        text = self.src.text
        events = []
        for (s, e, rule) in self.dels:
            events.append((s, 10**9, "del", e))
        for (off, order, t, rule) in self.ins:
            events.append((off, order, "ins", t))
        events.sort(key=lambda x: (x[0], x[1]))
        out, pos = [], self.lo
        for (off, _, kind, payload) in events:
            if off < pos and kind == "ins":
                raise ExtractError("insert inside a deleted range")
            if off > pos:
                out.append(text[pos:off])
                pos = off
            if kind == "del":
                pos = max(pos, payload)
            else:
                out.append(payload)
        out.append(text[pos:self.hi])
        return "".join(out)

    def audit(self):
        """src pieces + deleted pieces == original text, byte for byte."""
        text = self.src.text
        pos, buf = self.lo, []
        for (s, e, _) in sorted(self.dels):
            buf.append(text[pos:s])
            buf.append(text[s:e])
            pos = e
        buf.append(text[pos:self.hi])
        return "".join(buf) == text[self.lo:self.hi]


# ---------------------------------------------------------------------------
# rules applied to a fn item (free fn, impl method, trait method)

LOG_FORBIDDEN = re.compile(r"(?<![=!<>])=(?!=)|\.push\b|\.set\b|borrow_mut|\.insert\b|\.pop\b|\.remove\b")


def rule_attrs(item, pc, keep_derive=None):
    """R-ATTR: drop attributes in front of the item (optionally keep a filtered derive)."""
    t = item.src.toks
    kept = None
    for (a, b) in item.attrs:
        txt = item.src.text[t[a].s:t[b].e]
        nxt = item.src.sig(b + 1)
        s, e = t[a].s, t[nxt].s
        m = re.match(r"#\s*\[\s*derive\s*\((.*)\)\s*\]$", txt, re.S)
        if m and keep_derive:
            have = [x.strip() for x in m.group(1).split(",") if x.strip()]
            keep = [x for x in have if x in keep_derive]
            if keep:
                kept = keep
        pc.delete(s, e, "R-ATTR")
    if kept:
        pc.insert(t[item.vis_start].s, "#[derive(" + ", ".join(kept) + ")]\n", "R-ATTR", "derive filtered to " + ",".join(kept))
    # helper attributes of dropped derives (`#[default]` on an enum variant; `#[error(..)]`, `#[from]`, `#[source]` of thiserror::Error)
    if item.kind in ("enum", "struct") and item.body_open is not None:
        helpers = set()
        if not (kept and "Default" in kept):
            helpers.add("default")
        if not (kept and "thiserror::Error" in kept):
            helpers.update(("error", "from", "source", "backtrace"))
        i = item.body_open + 1
        while i < item.body_close:
            if t[i].text == "#":
                j = item.src.sig(i + 1)
                if t[j].text == "[":
                    k = item.src.match(j)
                    inner = "".join(x.text for x in t[j + 1:k] if x.kind not in ("ws", "comment"))
                    head = re.match(r"\w+", inner)
                    if head and head.group(0) in helpers and (inner == head.group(0) or inner[len(head.group(0))] == "("):
                        pc.delete(t[i].s, t[k].e, "R-ATTR", "helper attribute of a dropped derive")
                    i = k
            i += 1


def rule_log(item, pc):
    """R-LOG: delete `log!(..);` / `logn!(..);` statements inside the body."""
    if item.body_open is None:
        return
    src, t = item.src, item.src.toks
    i = item.body_open + 1
    while i < item.body_close:
        if t[i].kind == "ident" and t[i].text in ("log", "logn"):
            j = src.sig(i + 1)
            if t[j].text == "!":
                k = src.sig(j + 1)
                if t[k].text in OPEN:
                    p = src.prev_sig(i)
                    if t[p].text not in ("{", "}", ";"):
                        raise ExtractError(f"R-LOG refused: log! not in statement position at line {src.line_of(t[i].s)}")
                    close = src.match(k)
                    args = src.text[t[k].s:t[close].e]
                    # strip string literals before looking for side effects
                    bare = "".join(x.text for x in t[k:close + 1] if x.kind not in ("string", "char", "comment"))
                    if LOG_FORBIDDEN.search(bare):
                        raise ExtractError(f"R-LOG refused: argument may have a side effect at line {src.line_of(t[i].s)}: {args[:80]}")
                    e = close
                    q = src.sig(close + 1)
                    if t[q].text == ";":
                        e = q
                    # swallow trailing whitespace up to newline
                    if any(a_ <= t[i].s and t[e].e <= b_ for (a_, b_, _) in pc.dels):
                        i = e + 1
                        continue  # inside a range removed by R-XSTMTS / R-XEXPR
                    pc.delete(t[i].s, t[e].e, "R-LOG")
                    i = e + 1
                    continue
        i += 1


def rule_refpat(item, pc):
    """R-REFPAT: `for &x in E {` -> `for x__r in E { let x = *x__r;`"""
    if item.body_open is None:
        return
    src, t = item.src, item.src.toks
    i = item.body_open + 1
    while i < item.body_close:
        if t[i].kind == "ident" and t[i].text == "for":
            j = src.sig(i + 1)
            if t[j].text == "&":
                k = src.sig(j + 1)
                if t[k].kind != "ident":
                    raise ExtractError("R-REFPAT refused: pattern is not `&ident`")
                name = t[k].text
                kin = src.sig(k + 1)
                if t[kin].text != "in":
                    raise ExtractError("R-REFPAT refused: pattern is not `&ident`")
                pc.delete(t[j].s, t[k].e, "R-REFPAT")
                pc.insert(t[j].s, f"{name}__r", "R-REFPAT")
                b = loop_body_open(src, i)
                pc.insert(t[b].e, f" let {name} = *{name}__r;", "R-REFPAT")
        i += 1


def rule_clospat(item, pc, annotations=None):
    """R-CLOSPAT: `f(|(a, b)| E)` -> `f(|p__| { let (a, b) = p__; E })` -- the language's own desugaring of an
    irrefutable tuple pattern in a closure parameter.  Only when the closure is the last argument of a call."""
    if item.body_open is None:
        return
    src, t = item.src, item.src.toks
    i = item.body_open + 1
    n = 0
    while i < item.body_close:
        if t[i].text == "|":
            p = src.prev_sig(i)
            j = src.sig(i + 1)
            if t[p].text in ("(", ",") and t[j].text == "(":
                close = src.match(j)
                k = src.sig(close + 1)
                if t[k].text == "|":
                    # enclosing call paren
                    q = p
                    depth = 0
                    while not (t[q].text == "(" and depth == 0):
                        if t[q].text in CLOSE:
                            depth += 1
                        elif t[q].text in OPEN:
                            depth -= 1
                        q -= 1
                    call_close = src.match(q)
                    pat = src.text[t[j].s:t[close].e]
                    if "&" in pat or "ref " in pat:
                        raise ExtractError("R-CLOSPAT refused: reference pattern")
                    n += 1
                    name = f"p__{n}"
                    pc.delete(t[j].s, t[close].e, "R-CLOSPAT")
                    pc.insert(t[j].s, name, "R-CLOSPAT")
                    if annotations and n in annotations:
                        pc.insert(t[k].e, " " + annotations[n].strip() + " ", "R-SPLICE", f"closure #{n} specification")
                    pc.insert(t[k].e, f" {{ let {pat} = {name}; ", "R-CLOSPAT")
                    pc.insert(t[call_close].s, " }", "R-CLOSPAT")
                    i = k
        i += 1


def closures_of(item):
    """(open_bar, close_bar) token indices of closure parameter lists `|...|` in body order.  A `|` opens a closure when
    the previous significant token cannot end an expression or a pattern (`(`, `,`, `=`, `{`, `;`, `move`, `return`)."""
    src, t = item.src, item.src.toks
    res = []
    i = item.body_open + 1
    while i < item.body_close:
        if t[i].text == "|":
            p = src.prev_sig(i)
            if t[p].text in ("(", ",", "=", "{", ";", "move", "return", "=>"):
                j = i + 1
                while t[j].text != "|":
                    if t[j].text in OPEN:
                        j = src.match(j)
                    j += 1
                res.append((i, j))
                i = j
        i += 1
    return res


def splice_cspec(item, pc, ordinal, text):
    """R-SPLICE (closure specification): `|p| BODY` -> `|p| <text> { BODY }` where <text> is `-> (r: T) requires .. ensures ..`.
    Braces are added only when BODY is not already a block; a block around an expression does not change its value.
    The closure must be an argument of a call (its body ends at the next `,` at depth 0 or at the call's `)`)."""
    src, t = item.src, item.src.toks
    cl = closures_of(item)
    if ordinal < 1 or ordinal > len(cl):
        raise ExtractError(f"`{item.name}`: closure #{ordinal} not found (function has {len(cl)} closures)")
    (a, b) = cl[ordinal - 1]
    body_s = src.sig(b + 1)
    if t[body_s].text == "-" and t[body_s + 1].text == ">":
        raise ExtractError(f"`{item.name}`: closure #{ordinal} already has a return type")
    # end of the closure body: first `,` / `)` / `;` at depth 0
    j = body_s
    while True:
        if t[j].text in OPEN:
            j = src.match(j) + 1
            continue
        if t[j].text in (",", ")", ";") or j >= item.body_close:
            break
        j += 1
    body_e = src.prev_sig(j)
    braced = t[body_s].text == "{" and src.match(body_s) == body_e
    note = f"closure #{ordinal} specification"
    if braced:
        pc.insert(t[body_s].s, " " + text.strip() + " ", "R-SPLICE", note)
    else:
        pc.insert(t[body_s].s, " " + text.strip() + " { ", "R-SPLICE", note + " (body braced)")
        pc.insert(t[body_e].e, " }", "R-SPLICE")


def closure_extent(item, cl):
    """(body_start_tok, body_end_tok) of the closure whose parameter bars are cl=(a, b)"""
    src, t = item.src, item.src.toks
    (a, b) = cl
    body_s = src.sig(b + 1)
    j = body_s
    while True:
        if t[j].text in OPEN:
            j = src.match(j) + 1
            continue
        if t[j].text in (",", ")", ";") or j >= item.body_close:
            break
        j += 1
    return body_s, src.prev_sig(j)


def splice_cspec_text(item, pc, literal, text):
    """R-SPLICE (closure specification selected by the closure's own text): every closure of the function whose token
    text (parameters and body, whitespace/comments ignored) equals `literal` receives the specification `text`.
    Returns the number of closures annotated (zero is allowed: the closure may have been edited away)."""
    src, t = item.src, item.src.toks
    want = norm_text(literal)
    n = 0
    for k, cl in enumerate(closures_of(item)):
        body_s, body_e = closure_extent(item, cl)
        if norm_tokens(src, cl[0], body_e + 1) != want:
            continue
        if t[body_s].text == "-" and t[body_s + 1].text == ">":
            raise ExtractError(f"`{item.name}`: closure already has a return type")
        braced = t[body_s].text == "{" and src.match(body_s) == body_e
        note = "closure specification (selected by closure text)"
        if braced:
            pc.insert(t[body_s].s, " " + text.strip() + " ", "R-SPLICE", note)
        else:
            pc.insert(t[body_s].s, " " + text.strip() + " { ", "R-SPLICE", note + " (body braced)")
            pc.insert(t[body_e].e, " }", "R-SPLICE")
        if not hasattr(pc, "annotated_closures"):
            pc.annotated_closures = set()
        pc.annotated_closures.add(cl[0])
        n += 1
    return n


def splice_cspec_self(item, pc, methods, rtype):
    """R-SPLICE (self-specification of a closure): every closure that is the only argument of a call `.m(|p| BODY)` with m
    in `methods` receives `-> (r: T) ensures r == (BODY)`: "the value of an expression is that expression".  Verus
    itself rejects a BODY that is not a specification-mode expression (exec calls, assignments), which is exit 2.  Unlike a
    specification written in the template, this one follows every edit of BODY, so an edit that changes what the closure
    computes surfaces where the function's postcondition no longer follows."""
    src, t = item.src, item.src.toks
    n = 0
    for cl in closures_of(item):
        p = src.prev_sig(cl[0])
        if t[p].text != "(":
            continue
        m = src.prev_sig(p)
        if not (t[m].kind == "ident" and t[m].text in methods and t[src.prev_sig(m)].text == "."):
            continue
        body_s, body_e = closure_extent(item, cl)
        if src.sig(body_e + 1) != src.match(p) and not (t[src.sig(body_e + 1)].text == "," and src.sig(src.sig(body_e + 1) + 1) == src.match(p)):
            continue  # not the only argument
        off = t[cl[0]].s
        if any(s0 <= off < e0 for (s0, e0, _) in pc.dels):
            continue
        if t[body_s].text == "-" and t[body_s + 1].text == ">":
            raise ExtractError(f"`{item.name}`: closure already has a return type")
        body = src.text[t[body_s].s:t[body_e].e]
        spec = f" -> (r: {rtype}) ensures r == ({body}) "
        braced = t[body_s].text == "{" and src.match(body_s) == body_e
        note = "closure self-specification `ensures r == (BODY)`"
        if braced:
            pc.insert(t[body_s].s, spec, "R-SPLICE", note)
        else:
            pc.insert(t[body_s].s, spec + "{ ", "R-SPLICE", note)
            pc.insert(t[body_e].e, " }", "R-SPLICE")
        if not hasattr(pc, "annotated_closures"):
            pc.annotated_closures = set()
        pc.annotated_closures.add(cl[0])
        n += 1
    return n


def require_all_closures_specified(item, pc):
    """Used with cspec_text: a closure left without a specification (its text is not in the template's table) makes the
    unit undecided (exit 2) -- Verus would know nothing about its result, and a failed proof would not be a refutation."""
    src, t = item.src, item.src.toks
    done = getattr(pc, "annotated_closures", set())
    for cl in closures_of(item):
        off = t[cl[0]].s
        if any(s <= off < e for (s, e, _) in pc.dels):
            continue  # moved away by R-XEXPR
        if cl[0] not in done:
            body_s, body_e = closure_extent(item, cl)
            raise ExtractError(f"`{item.name}`: closure without a specification in the template (line {src.line_of(off)}): "
                               f"{norm_tokens(src, cl[0], body_e + 1)[:120]}")


def norm_text(text):
    """token text of a Rust fragment with whitespace and comments removed (string literals keep their spaces)"""
    return "".join(x.text for x in tokenize(text) if x.kind not in ("ws", "comment"))


def norm_tokens(src, lo, hi):
    return "".join(x.text for x in src.toks[lo:hi] if x.kind not in ("ws", "comment"))


def rule_xexpr(item, pc, literal, call_text, all_occurrences=False):
    """R-XEXPR: one sub-expression, identified by its exact token text (whitespace and comments ignored), is replaced by
    `call_text`, a call of an `external_body` function that the unit declares with `//@xexprfn`: the body of that
    function is the removed text, verbatim; its signature is written in the template and checked by rustc against the
    verbatim body; its contract is ASSUMED (listed).  Used where an expression goes through a std function for which
    Verus has no specification and accepts none (provided trait methods such as Iterator::partition).
    Returns the removed source text."""
    src, t = item.src, item.src.toks
    want = norm_text(literal)
    sigs = [i for i in range(item.body_open + 1, item.body_close) if t[i].kind not in ("ws", "comment")]
    hits = []
    for a_i, a in enumerate(sigs):
        if not want.startswith(t[a].text):
            continue
        acc = ""
        for b in sigs[a_i:]:
            acc += t[b].text
            if not want.startswith(acc):
                break
            if acc == want:
                hits.append((a, b))
                break
    if (len(hits) != 1 and not all_occurrences) or not hits:
        raise ExtractError(f"R-XEXPR: `{item.name}`: expression text must occur exactly once, found {len(hits)}: {literal[:80]!r}")
    removed = None
    for (a, b) in hits:
        # brackets inside the window must be balanced within it
        for k in range(a, b + 1):
            if t[k].text in OPEN or t[k].text in CLOSE:
                m = src.match(k)
                if not (a <= m <= b):
                    raise ExtractError("R-XEXPR: expression window is not bracket-balanced")
        removed = src.text[t[a].s:t[b].e]
        pc.delete(t[a].s, t[b].e, "R-XEXPR", "expression moved verbatim into an external_body function (contract assumed)" + (" -- one of %d identical occurrences" % len(hits) if len(hits) > 1 else ""))
        pc.insert(t[a].s, call_text, "R-XEXPR")
    return removed


def rule_xstmts(item, pc, first_literal, last_literal, call_stmt):
    """R-XSTMTS: a contiguous statement sequence -- from the statement that starts with `first_literal` to the statement that
    ends with `last_literal` (each must occur exactly once; the range must start at a statement boundary and end with `;`) --
    is replaced by ONE statement `call_stmt`, a `let` that binds the sequence's only live-out variable to the result of an
    `external_body` function declared in the template (`//@xexprfn NAME nobody`: the removed text cannot be the body of a
    function when, as here, it declares a local of a type Verus does not take).  The contract of that function is ASSUMED
    (listed); the removed text is recorded.  Same trust as R-XEXPR.  Returns the removed text."""
    src, t = item.src, item.src.toks
    body_s, body_e = t[item.body_open].s, t[item.body_close].e
    body = src.text[body_s:body_e]
    if body.count(first_literal) != 1 or body.count(last_literal) != 1:
        raise ExtractError(f"R-XSTMTS: `{item.name}`: the delimiting texts must each occur exactly once")
    a_off = body_s + body.index(first_literal)
    z_off = body_s + body.index(last_literal) + len(last_literal)
    if z_off <= a_off:
        raise ExtractError("R-XSTMTS: empty range")
    a = next((i for i in range(item.body_open, item.body_close) if t[i].s == a_off), None)
    zl = next((i for i in range(item.body_open, item.body_close + 1) if t[i].e == z_off), None)
    if a is None or zl is None:
        raise ExtractError("R-XSTMTS: range is not at token boundaries")

    def balanced(lo, hi):
        for k in range(lo, hi + 1):
            if t[k].text in OPEN or t[k].text in CLOSE:
                m = src.match(k)
                if not (lo <= m <= hi):
                    return False
        return True
    # the range ends at the end of the statement that contains `last_literal`: the first `;` after it that closes the brackets
    z = None
    for k in range(zl, item.body_close):
        if t[k].text == ";" and balanced(a, k):
            z = k
            break
    if z is None:
        raise ExtractError("R-XSTMTS: no statement end after the last delimiting text")
    if t[src.prev_sig(a)].text not in ("{", "}", ";"):
        raise ExtractError("R-XSTMTS: range does not start at a statement boundary")
    removed = src.text[t[a].s:t[z].e]
    pc.delete(t[a].s, t[z].e, "R-XSTMTS", "statement sequence replaced by one call of an external_body function (contract assumed)")
    pc.insert(t[a].s, call_stmt, "R-XSTMTS")
    return removed


def loop_body_open(src, kw_idx):
    t = src.toks
    j = kw_idx + 1
    while True:
        if t[j].text == "{":
            return j
        if t[j].text in ("(", "["):
            j = src.match(j)
        j += 1


def loops_of(item):
    """token indices of loop keywords (while/loop/for) in body order, excluding nested fn items/closures is not attempted"""
    src, t = item.src, item.src.toks
    res = []
    i = item.body_open + 1
    while i < item.body_close:
        if t[i].kind == "ident" and t[i].text in ("while", "loop", "for"):
            # `for<'a>` HRTB is not a loop
            nxt = src.sig(i + 1)
            if not (t[i].text == "for" and t[nxt].text == "<"):
                res.append(i)
        i += 1
    return res


def sig_end(item):
    """token index of the `{` or `;` that terminates the signature"""
    return item.body_open if item.body_open is not None else item.end


def rule_ret(item, pc, retname):
    """R-RET: `-> T` becomes `-> (r: T)` so that the postcondition can name the result."""
    src, t = item.src, item.src.toks
    i = item.kw
    end = sig_end(item)
    arrow = None
    depth_angle = 0
    while i < end:
        if t[i].text in ("(", "["):
            i = src.match(i)
        elif t[i].text == "-" and t[i + 1].text == ">":
            arrow = i
            break
        i += 1
    if arrow is None:
        raise ExtractError(f"R-RET: `{item.name}` has no return type")
    ty_start = src.sig(arrow + 2)
    # return type ends at `where` (depth 0) or at signature end
    j = ty_start
    ty_end = None
    while j < end:
        if t[j].text in ("(", "["):
            j = src.match(j)
        elif t[j].text == "<":
            depth_angle += 1
        elif t[j].text == ">" and t[j - 1].text != "-":
            depth_angle -= 1
        elif t[j].kind == "ident" and t[j].text == "where" and depth_angle == 0:
            ty_end = src.prev_sig(j)
            break
        j += 1
    if ty_end is None:
        ty_end = src.prev_sig(end)
    pc.insert(t[ty_start].s, f"({retname}: ", "R-RET")
    pc.insert(t[ty_end].e, ")", "R-RET")


def splice_spec(item, pc, text):
    src, t = item.src, item.src.toks
    end = sig_end(item)
    p = src.prev_sig(end)
    pc.insert(t[p].e, "\n" + text.rstrip() + "\n", "R-SPLICE")


def rule_foreach(item, pc, inv_text=None, iter_name=None):
    """R-FOREACH: the statement `RECV.for_each(|PAT| BODY);` becomes `for PAT in RECV { BODY; }` -- std documents
    Iterator::for_each as equivalent to a `for` loop over the iterator (no break/continue possible in a closure).
    A wildcard pattern `_` is given a name (`_each__`), since Verus accepts only variables there.  Applied to every
    `.for_each(` call that is a whole expression statement; anything else is refused."""
    if item.body_open is None:
        return
    src, t = item.src, item.src.toks
    i = item.body_open + 1
    while i < item.body_close:
        if t[i].kind == "ident" and t[i].text == "for_each" and t[src.prev_sig(i)].text == "." and t[src.sig(i + 1)].text == "(":
            dot = src.prev_sig(i)
            op = src.sig(i + 1)
            cl = src.match(op)
            semi = src.sig(cl + 1)
            if t[semi].text != ";":
                raise ExtractError("R-FOREACH refused: for_each call is not a whole statement")
            # statement start: token after the previous `;`, `{` or `}` at this nesting level
            j = dot - 1
            depth = 0
            while True:
                if t[j].text == "}" and depth == 0:
                    break  # end of a preceding block statement
                if t[j].text in CLOSE:
                    depth += 1
                elif t[j].text in OPEN:
                    if depth == 0:
                        break
                    depth -= 1
                elif t[j].text == ";" and depth == 0:
                    break
                j -= 1
            start = src.sig(j + 1)
            p1 = src.sig(op + 1)
            if t[p1].text != "|":
                raise ExtractError("R-FOREACH refused: argument is not a closure literal")
            p2 = p1 + 1
            while t[p2].text != "|":
                p2 += 1
            pat = src.text[t[p1].e:t[p2].s].strip()
            if not re.match(r"^(_|[A-Za-z_][A-Za-z0-9_]*)$", pat):
                raise ExtractError(f"R-FOREACH refused: closure parameter {pat!r} is not a plain variable or `_`")
            name = "_each__" if pat == "_" else pat
            body_s = src.sig(p2 + 1)
            braced = t[body_s].text == "{" and src.match(body_s) == src.prev_sig(cl)
            pc.insert(t[start].s, f"for {name} in " + (f"{iter_name}: " if iter_name else ""), "R-FOREACH")
            spec = ("\n" + inv_text.rstrip() + "\n") if inv_text else ""
            pc.delete(t[dot].s, t[body_s].s, "R-FOREACH", "`.for_each(|p|` -> loop header")
            if not braced:
                pc.insert(t[dot].s, spec + " { ", "R-FOREACH")
                pc.delete(t[cl].s, t[semi].e, "R-FOREACH")
                pc.insert(t[cl].s, "; }", "R-FOREACH")
            else:
                pc.insert(t[dot].s, spec + " ", "R-FOREACH")
                pc.delete(t[cl].s, t[semi].e, "R-FOREACH")
            i = semi
        i += 1


def rule_hoist(item, pc, ordinal, literal, name):
    """R-HOIST: `for x in PRE<literal>POST {` -> `let name = <literal>; for x in PRE name POST {`.
    The iterable expression of a `for` is evaluated exactly once, at loop entry, so binding one of its sub-expressions
    with `let` immediately before the loop preserves meaning (rustc itself suggests it: Verus's desugaring of `for`
    does not extend the lifetime of temporaries in the iterable expression)."""
    src, t = item.src, item.src.toks
    ls = loops_of(item)
    k = ls[ordinal - 1]
    if t[k].text != "for":
        raise ExtractError("R-HOIST only applies to for loops")
    j = k + 1
    while not (t[j].kind == "ident" and t[j].text == "in"):
        if t[j].text in OPEN:
            j = src.match(j)
        j += 1
    b = loop_body_open(src, k)
    s0, e0 = t[src.sig(j + 1)].s, t[b].s
    expr = src.text[s0:e0]
    if expr.count(literal) != 1:
        raise ExtractError(f"R-HOIST: {literal!r} must occur exactly once in the iterable expression {expr.strip()!r}")
    off = s0 + expr.index(literal)
    if not (any(x.s == off for x in t[j:b]) and any(x.e == off + len(literal) for x in t[j:b])):
        raise ExtractError("R-HOIST: literal is not at token boundaries")
    pc.delete(off, off + len(literal), "R-HOIST")
    pc.insert(off, name, "R-HOIST")
    pc.insert(t[k].s, f"let {name} = {literal};\n", "R-HOIST")


def splice_loop(item, pc, ordinal, text, iter_name=None):
    ls = loops_of(item)
    if ordinal < 1 or ordinal > len(ls):
        raise ExtractError(f"`{item.name}`: loop #{ordinal} not found (function has {len(ls)} loops)")
    if iter_name:
        # `for x in EXPR` -> `for x in NAME: EXPR` (names Verus's ghost iterator; specification only)
        src, t = item.src, item.src.toks
        k = ls[ordinal - 1]
        if t[k].text != "for":
            raise ExtractError("iter= only applies to for loops")
        j = k + 1
        while not (t[j].kind == "ident" and t[j].text == "in"):
            if t[j].text in OPEN:
                j = src.match(j)
            j += 1
        pc.insert(t[src.sig(j + 1)].s, f"{iter_name}: ", "R-SPLICE", "ghost iterator name")
    b = loop_body_open(item.src, ls[ordinal - 1])
    p = item.src.prev_sig(b)
    pc.insert(item.src.toks[p].e, "\n" + text.rstrip() + "\n", "R-SPLICE")


def splice_before(item, pc, literal, ordinal, text, after=False):
    src, t = item.src, item.src.toks
    body_s, body_e = t[item.body_open].s, t[item.body_close].e
    body = src.text[body_s:body_e]
    pos, off = -1, 0
    for _ in range(ordinal):
        pos = body.find(literal, pos + 1)
        if pos < 0:
            raise ExtractError(f"`{item.name}`: anchor text {literal!r} #{ordinal} not found")
    off = body_s + pos + (len(literal) if after else 0)
    # must be at a token boundary
    if not any(tok.s == off or tok.e == off for tok in t[item.body_open:item.body_close + 1]):
        raise ExtractError(f"`{item.name}`: anchor {literal!r} is not at a token boundary")
    pc.insert(off, ("\n" if after else "") + text.rstrip() + "\n", "R-SPLICE")


def make_xbody(item, pc):
    """R-XBODY: keep the real signature, drop the body; caller marks it external_body."""
    t = item.src.toks
    if item.body_open is None:
        return
    pc.delete(t[item.body_open].s, t[item.body_close].e, "R-XBODY", "body not verified here")
    pc.insert(t[item.body_open].s, "{ unimplemented!() }", "R-XBODY")


def project_fields(item, pc, keep):
    """R-PROJ: drop struct fields that are not in `keep` (with their doc comments and attributes)."""
    src, t = item.src, item.src.toks
    if item.body_open is None or t[item.body_open].text != "{":
        raise ExtractError("R-PROJ: only brace structs")
    i = src.sig(item.body_open + 1)
    seen = set()
    prev_end = t[item.body_open].e
    while i < item.body_close:
        # attributes / visibility
        while t[i].text == "#":
            j = src.sig(i + 1)
            i = src.sig(src.match(j) + 1)
        if t[i].text == "pub":
            i = src.sig(i + 1)
            if t[i].text == "(":
                i = src.sig(src.match(i) + 1)
        fname = t[i].text
        j = i
        angle = 0
        while j < item.body_close:
            if t[j].text in OPEN:
                j = src.match(j)
            elif t[j].text == "<":
                angle += 1
            elif t[j].text == ">" and t[j - 1].text != "-":
                angle -= 1
            elif t[j].text == "," and angle == 0:
                break
            j += 1
        if j < item.body_close:
            this_end = t[j].e
        else:
            this_end = t[src.prev_sig(item.body_close)].e
        seen.add(fname)
        if fname not in keep:
            pc.delete(prev_end, this_end, "R-PROJ", f"field {fname}")
        prev_end = this_end
        i = src.sig(j + 1) if j < item.body_close else item.body_close
    missing = set(keep) - seen
    if missing:
        raise ExtractError(f"R-PROJ: struct {item.name} has no field(s) {sorted(missing)}")


def drop_supertraits(item, pc):
    """R-BOUND on a trait header: drop `: A + B` after the generics."""
    src, t = item.src, item.src.toks
    i = src.sig(src.sig(item.kw + 1) + 1)  # after name
    if t[i].text == "<":
        depth = 0
        while True:
            if t[i].text == "<":
                depth += 1
            elif t[i].text == ">" and t[i - 1].text != "-":
                depth -= 1
                if depth == 0:
                    break
            i += 1
        i = src.sig(i + 1)
    if t[i].text != ":":
        return
    j = i
    while j < item.body_open and not (t[j].kind == "ident" and t[j].text == "where"):
        j += 1
    pc.delete(t[i].s, t[j].s if j < item.body_open else t[item.body_open].s, "R-BOUND", "supertraits")
    pc.insert(t[i].s, " ", "R-BOUND")


def drop_text(item, pc, literal, rule, note=""):
    """Delete one literal occurrence inside the item header (used for R-BOUND on where clauses)."""
    src, t = item.src, item.src.toks
    s0 = t[item.kw].s
    e0 = t[sig_end(item)].s
    hdr = src.text[s0:e0]
    if hdr.count(literal) != 1:
        raise ExtractError(f"{rule}: header of `{item.name or item.header_norm()[:40]}` must contain {literal!r} exactly once")
    off = s0 + hdr.index(literal)
    pc.delete(off, off + len(literal), rule, note)


# ---------------------------------------------------------------------------
# R-MACRO: instantiate a single-arm macro_rules! body by substituting its `$name:ident` metavariables, as rustc does.


def macro_params(src, item):
    t = src.toks
    i = src.sig(item.body_open + 1)
    if t[i].text != "(":
        raise ExtractError("R-MACRO: unexpected macro shape")
    close = src.match(i)
    names = []
    j = i + 1
    while j < close:
        if t[j].text == "$":
            names.append(t[j + 1].text)
            k = src.sig(j + 2)
            if t[k].text != ":" or t[src.sig(k + 1)].text != "ident":
                raise ExtractError("R-MACRO: only `$x:ident` parameters are supported")
        j += 1
    return names


def expand_macro(src, item, subst):
    t = src.toks
    names = macro_params(src, item)
    if set(names) != set(subst):
        raise ExtractError(f"R-MACRO: parameters {names} vs substitution {sorted(subst)}")
    i = src.sig(item.body_open + 1)
    close = src.match(i)
    j = src.sig(close + 1)
    if not (t[j].text == "=" and t[j + 1].text == ">"):
        raise ExtractError("R-MACRO: expected `=>`")
    b = src.sig(j + 2)
    bclose = src.match(b)
    # single arm only
    k = src.sig(bclose + 1)
    if t[k].text == ";":
        k = src.sig(k + 1)
    if k != item.body_close:
        raise ExtractError("R-MACRO: macro has more than one arm")
    out = []
    x = b + 1
    while x < bclose:
        if t[x].text == "$" and t[x + 1].kind == "ident":
            name = t[x + 1].text
            if name not in subst:
                raise ExtractError(f"R-MACRO: unknown metavariable ${name}")
            out.append(subst[name])
            x += 2
            continue
        if t[x].text == "$":
            raise ExtractError("R-MACRO: repetition or nested macro syntax is not supported")
        out.append(t[x].text)
        x += 1
    return "".join(out), "macro body instantiated by textual substitution of " + ", ".join(f"${k}={v}" for k, v in subst.items())
