#!/usr/bin/env python3
"""runner -- decide one property: run its obligations (Verus units, Kani harnesses), classify, write evidence.

Exit codes: 0 held / 1 VIOLATION / 2 undecided (lost anchor, compile error in a unit, rlimit, timeout, vacuity guard).
"""
import concurrent.futures as cf
import hashlib
import json
import os
import re
import subprocess
import sys
import time

sys.path.insert(0, os.path.dirname(os.path.abspath(__file__)))
import vx  # noqa: E402
import kx  # noqa: E402
from rsx import ExtractError  # noqa: E402

VERIF = vx.VERIF
SPEC = json.load(open(os.path.join(VERIF, "specs", "properties.json")))


SAFETY_MSGS = ("precondition not satisfied", "possible arithmetic underflow/overflow", "possible division by zero",
               "decreases not satisfied", "could not prove termination", "unreachable", "index out of bounds",
               "may fail to meet its declared type invariant", "possible bit shift")


def is_safety(msg):
    return any(k in msg for k in SAFETY_MSGS)


def load_known():
    findings = []
    p = os.path.join(VERIF, "known_findings.txt")
    for line in open(p):
        line = line.strip()
        if line.startswith("finding:"):
            m = re.match(r"finding:\s*property=(\S+)\s+obligation=(\S+)\s*(.*)$", line)
            if m:
                findings.append({"property": m.group(1), "obligation": m.group(2), "what": m.group(3)})
    return findings


def repo_state():
    def git(*a):
        return subprocess.run(["git", "-C", vx.REPO] + list(a), capture_output=True, text=True).stdout.strip()
    return {"head": git("rev-parse", "HEAD"), "dirty_files": [l for l in git("status", "--porcelain").split("\n") if l]}


def write_replay(pid, obligation, body):
    d = os.path.join(VERIF, "replays", pid)
    os.makedirs(d, exist_ok=True)
    safe = re.sub(r"[^A-Za-z0-9_.-]+", "_", obligation)
    path = os.path.join(d, safe + ".replay.json")
    json.dump(body, open(path, "w"), indent=1)
    return path


def run_property(pid, tier="quick", seed=0):
    t0 = time.time()
    spec = SPEC["properties"].get(pid)
    if spec is None:
        print(f"property {pid} is not claimed (see MANIFEST.not_applicable)")
        return 2
    known = [k for k in load_known() if k["property"] == pid]
    vx_units = sorted({o["unit"] for o in spec["obligations"] if o["engine"] == "vx"})
    kx_obl = [o for o in spec["obligations"] if o["engine"] == "kx" and (tier == "thorough" or not o.get("thorough_only"))]
    if os.environ.get("VERIF_ENGINES") == "vx":
        # development aid (tools/dev/run_seeds.py): Verus obligations only; never used by the registered commands, and the
        # evidence of such a run says so
        kx_obl = []
    undecided, violations, discharged, bounded_ok, samples = [], [], [], [], []
    functions_under_contract, assumptions, rules_fired = [], set(), []
    solver_ms = 0.0
    unit_results = {}

    # ---- Verus units (parallel) ----
    def run_vx(u):
        try:
            return u, vx.verify_unit(u, rlimit=SPEC.get("rlimit", 20), stability_seeds=((7, 101, 4242) if tier == "thorough" else ())), None
        except ExtractError as e:
            return u, None, str(e)

    kani_future = None
    with cf.ThreadPoolExecutor(max_workers=8) as ex:
        futs = [ex.submit(run_vx, u) for u in vx_units]
        if kx_obl:
            kani_future = ex.submit(kx.run_harnesses, kx_obl, tier)
        for f in futs:
            u, r, err = f.result()
            unit_results[u] = (r, err)
        kres = kani_future.result() if kani_future else {}

    vx_obligations = []
    for o in spec["obligations"]:
        if o["engine"] != "vx":
            continue
        r, err = unit_results[o["unit"]]
        if err is not None:
            undecided.append({"obligation": o["unit"], "reason": "extraction: " + err})
            continue
        if r["status"] == "undecided":
            for u_ in r["undecided"]:
                undecided.append({"obligation": u_.get("fn") or o["unit"], "reason": u_["msg"], "detail": u_["text"][:1500]})
        fns = o["fns"]
        for fn in fns:
            full = f"{o['unit']}::{fn}"
            vx_obligations.append(full)
            fails = [f for f in r["failures"] if f["fn"] == full and (not f["tags"] or pid in f["tags"])]
            if o.get("kinds") == "safety":
                # totality properties (C15/C16): only panics / overflow / non-termination count, not functional clauses
                # ... plus functional clauses tagged explicitly with this property (premises of its termination argument)
                fails = [f for f in fails if is_safety(f["msg"]) or pid in f["tags"]]
            elif o.get("kinds") == "functional":
                fails = [f for f in fails if not is_safety(f["msg"])]
            # a failure inside this fn attributed by tag to *other* properties only is not ours
            info = r["per_fn"].get(full)
            # an UNTAGGED plain `assert` in spliced proof text is a proof hint, not a contract clause: when only hints fail, the
            # proof no longer goes through (a harmless reordering can do that) but no clause taken from a property is refuted --
            # undecided, not a violation.  Postconditions, invariants, preconditions of callees, overflow/termination checks
            # and every assert tagged [Cxx] are contract clauses.
            hint_fails = [f for f in fails if f["msg"].startswith("assertion failed") and not f["tags"]]
            clause_fails = [f for f in fails if f not in hint_fails]
            if hint_fails and not clause_fails:
                undecided.append({"obligation": full, "reason": "only untagged proof hints fail (the proof no longer goes through; no contract clause is refuted)",
                                  "detail": "\n".join(f["text"] for f in hint_fails)[:1500]})
                fails = []
                hint_only = True
            else:
                fails = clause_fails
                hint_only = False
            if hint_only:
                pass
            elif fails:
                violations.append({"obligation": full, "engine": "verus", "failures": fails, "unit": o["unit"]})
            elif r["status"] == "undecided" and (info is None or info["success"] is not True):
                pass  # already in undecided
            elif info is not None and info["success"] is True or (info is None and r["status"] == "ok"):
                other = [f for f in r["failures"] if f["fn"] == full]
                discharged.append({"obligation": full, "backend": "verus+z3", "ms": (info or {}).get("ms", 0),
                                   "clauses_failing_for_other_properties": len(other)})
                solver_ms += (info or {}).get("ms", 0)
            else:
                undecided.append({"obligation": full, "reason": "no verdict for this function in Verus output"})
        # lemmas over the specification functions (proof fns in template text): each must be verified by Verus; a lemma
        # that fails says nothing about /repo's code (it is about the specification), so it is undecided, never a violation
        for lem in o.get("lemmas", []):
            full = f"{o['unit']}::{lem}"
            vx_obligations.append(full)
            info = r["per_fn"].get(full)
            lem_fail = [f for f in r["failures"] + r["undecided"] if f.get("lemma") == full]
            if info is not None and info["success"] is True and not lem_fail:
                discharged.append({"obligation": full, "backend": "verus+z3", "ms": info.get("ms", 0), "kind": "lemma (proof fn over the specification functions)"})
                solver_ms += info.get("ms", 0)
            else:
                undecided.append({"obligation": full, "reason": "lemma not verified: " + "; ".join(f["msg"] for f in lem_fail)[:300],
                                  "detail": "\n".join(f["text"] for f in lem_fail)[:1500]})
        # canary / vacuity
        can = r.get("canary")
        if can and can["vacuous"]:
            mine = [v for v in can["vacuous"] if v.split("::", 1)[1] in fns]
            for v in mine:
                undecided.append({"obligation": v, "reason": "vacuity guard: assert(false) at function entry verified (contradictory requires?)"})
        for it in r["items"]:
            if it["kind"] == "fn" and it.get("obligation") and it["obligation"].split("::", 1)[1] in fns:
                functions_under_contract.append({"fn": it["obligation"], "file": it["file"], "lines": it["lines"],
                                                 "sha256_16": it["sha256_16"], "rules": sorted({x["rule"] for x in it["rules"]})})
                if len(samples) < 4 and it.get("contract"):
                    samples.append({"obligation": it["obligation"], "source": f"{it['file']}:{it['lines'][0]}-{it['lines'][1]}",
                                    "contract": it["contract"][:1200]})
            for x in it["rules"]:
                if x["rule"] in ("R-LOG", "R-XBODY", "R-PROJ", "R-BOUND", "R-LIFT", "R-XEXPR", "R-XSTMTS"):
                    rules_fired.append(f"{o['unit']}:{it['name']}:{x['rule']}")
        for (ln, what, line) in r["cheats"]:
            assumptions.add(f"{o['unit']}: {what}: {line}")

    # ---- twin fallback: a Verus obligation that came back UNDECIDED (an edit pushed the function out of Verus's subset, an
    # anchor moved, an extraction rule refused) is handed to its registered Kani twins -- bounded harnesses on the unextracted
    # real crate.  A failing twin is a violation (with Kani's concrete values); a passing twin does NOT discharge the
    # obligation (it stays undecided: the twin is bounded).
    twin_ran = {}
    if undecided and os.environ.get("VERIF_ENGINES") != "vx":
        wanted = []
        for o in spec["obligations"]:
            if o["engine"] != "vx":
                continue
            r, err = unit_results[o["unit"]]
            und_names = {u["obligation"] for u in undecided}
            unit_level = err is not None or (r is not None and r["status"] == "undecided")
            for fn in o["fns"]:
                full = f"{o['unit']}::{fn}"
                info = (r or {}).get("per_fn", {}).get(full) if r else None
                if full not in und_names and not (unit_level and not (info is not None and info.get("success") is True)):
                    continue
                tw = SPEC.get("twins", {}).get(full)
                if tw and full not in twin_ran:
                    wanted.append((full, tw))
        already = {o["harness"] for o in kx_obl}
        for full, tw in wanted:
            hs = tw["harness"] if isinstance(tw["harness"], list) else [tw["harness"]]
            res = kx.run_harnesses([{"crate": tw["crate"], "harness": h, "kind": "bounded"} for h in hs if h not in already])
            already |= set(hs)  # obligations that share twins (conflict_block / reduce_block) run them once
            twin_ran[full] = {h: {k: v for k, v in (x or {}).items() if k != "tail"} for h, x in res.items()}
            for h, x in res.items():
                if x and x.get("status") == "failed":
                    violations.append({"obligation": f"kani::{tw['crate']}::{h}", "engine": "kani", "failures": x["failed_checks"], "kani": x,
                                       "twin_of": full})

    # ---- Kani harnesses ----
    kx_done = []
    for o in kx_obl:
        kr = kres.get(o["harness"])
        name = f"kani::{o['crate']}::{o['harness']}"
        if kr is None or kr["status"] == "undecided":
            undecided.append({"obligation": name, "reason": (kr or {}).get("reason", "kani did not run"), "detail": (kr or {}).get("tail", "")[-1500:]})
            continue
        entry = {"obligation": name, "backend": "kani+cbmc", "kind": o["kind"], "bound": o.get("bound"), "s": kr.get("wall_s"),
                 "checks": kr.get("checks"), "covers": kr.get("covers")}
        if kr["status"] == "failed":
            violations.append({"obligation": name, "engine": "kani", "failures": kr["failed_checks"], "kani": kr})
        else:
            solver_ms += 1000 * (kr.get("solver_s") or 0)
            (discharged if o["kind"] == "complete" else bounded_ok).append(entry)
            functions_under_contract.extend({"fn": f, "file": o.get("file"), "via": name} for f in o.get("functions", []))
            if len(samples) < 6:
                samples.append({"obligation": name, "kind": o["kind"], "bound": o.get("bound"), "claim": o.get("claim")})
        kx_done.append(name)
        for a in o.get("assumptions", []):
            assumptions.add(f"{name}: {a}")

    # ---- verdict ----
    n_obl = len(vx_obligations) + len([o for o in kx_obl if o["kind"] == "complete"])
    real_violations, known_hits = [], []
    for v in violations:
        k = [k for k in known if k["obligation"] == v["obligation"]]
        if k:
            known_hits.append((v, k[0]))
        else:
            real_violations.append(v)
    rc = 0
    for (v, k) in known_hits:
        print(f"KNOWN-FINDING: property={pid} {v['obligation']} {k['what']}")
    replay_paths = []
    twin_cache = {}
    for v in real_violations:
        body = {"property": pid, "obligation": v["obligation"], "engine": v["engine"], "repo": repo_state(),
                "how_to_replay": f"./check {pid} --replay <this file>"}
        suffix = ""
        if v["engine"] == "verus":
            body["verifier_output"] = [f["text"] for f in v["failures"]]
            body["unit_file"] = os.path.join(vx.BUILD, v["unit"] + ".rs")
            body["messages"] = [f["msg"] for f in v["failures"]]
            twin = SPEC.get("twins", {}).get(v["obligation"])
            body["kani_twin"] = twin
            tw = None
            if twin:
                # the twins of a refuted obligation are run once per run (obligations may share them) and only to obtain
                # concrete values: the refutation itself stands on the Verus failure
                # (at most the first three twins: each failing twin is re-run alone for concrete playback, minutes apiece)
                hs_ = twin["harness"] if isinstance(twin["harness"], list) else [twin["harness"]]
                twin = {"crate": twin["crate"], "harness": hs_[:3]}
                tkey = json.dumps(twin, sort_keys=True)
                if os.environ.get("VERIF_ENGINES") == "vx":
                    twin_cache[tkey] = None
                elif tkey not in twin_cache:
                    twin_cache[tkey] = kx.run_twin(twin)
                tw = twin_cache[tkey]
                body["twin_result"] = {k: v for k, v in (tw or {}).items() if k != "tail"} if tw else None
            if not (tw and tw.get("concrete_test")):
                suffix = " no-failing-input-found"
        else:
            body["verifier_output"] = v["kani"].get("tail", "")[-6000:]
            body["failed_checks"] = v["failures"]
            body["concrete_test"] = v["kani"].get("concrete_test")
            if not v["kani"].get("concrete_test"):
                suffix = " no-failing-input-found"
        path = write_replay(pid, v["obligation"], body)
        replay_paths.append(path)
        print(f"VIOLATION property={pid} replay={path}{suffix}")
        for m in (body.get("messages") or [str(x)[:200] for x in body.get("failed_checks", [])])[:4]:
            print(f"  obligation {v['obligation']}: {m}")
        rc = 1
    if rc == 0 and undecided:
        rc = 2
        for u in undecided:
            print(f"UNDECIDED property={pid} obligation={u['obligation']} reason={u['reason']}")
            if u.get("detail"):
                print("   " + u["detail"].replace("\n", "\n   ")[:1500])

    wall = time.time() - t0
    level = spec.get("level", "proof")
    total_checks = sum((kres.get(o["harness"]) or {}).get("checks", {}).get("total", 0) for o in kx_obl)
    ev = {
        "property_id": pid, "tier": tier, "seed": seed, "level": level,
        "coverage": {
            # generic keys (required for the model_checking level, informative otherwise); all measured on this run:
            "evaluations": total_checks + len(vx_obligations),
            "distinct_nontrivial": len(discharged) + len(bounded_ok),
            "rule": "evaluations = CBMC checks evaluated over all Kani harnesses of this run (as reported by Kani) + Verus functions verified; "
                    "distinct_nontrivial = distinct obligations (Verus functions / Kani harnesses) that returned a verdict of success with a non-zero "
                    "check count and all cover statements satisfied",
            "obligations": n_obl,
            "discharged": len(discharged),
            "checker_cmd": "verus <unit>.rs --output-json --time --rlimit %s (units: %s); %s" % (
                SPEC.get("rlimit", 20), ",".join(vx_units) or "-", kx.CMD_DESCR if kx_obl else "no kani harness"),
            "trusted_base": SPEC["trusted_base"] + spec.get("trusted_base", []),
            "samples": samples or [{"note": "no obligation ran"}],
            "explanation": spec["scope"],
            "functions_under_contract": functions_under_contract,
            "discharged_list": discharged,
            "bounded_stand_ins": bounded_ok,
            "bounded_not_counted_as_proved": len(bounded_ok),
            "undecided_clauses": spec.get("undecided_clauses", []),
            "undecided_this_run": undecided,
            "solver_time_s": round(solver_ms / 1000.0, 3),
            "extraction_rules_fired": sorted(set(rules_fired)),
            "vacuity": {u: (unit_results[u][0] or {}).get("canary") for u in vx_units},
            "proof_stability": {u: (unit_results[u][0] or {}).get("stability") for u in vx_units},
            "repo": repo_state(),
            "exhaustive": False,
        },
        "assumptions": sorted(assumptions) + spec.get("assumptions", []),
        "wall_s": round(wall, 2),
        "violations": len(real_violations),
        "known_findings_reproduced": [v["obligation"] for (v, _) in known_hits],
        "twin_fallback": twin_ran,
        "engines_restricted_to": os.environ.get("VERIF_ENGINES"),
        "replays": replay_paths,
        "exit_code": rc,
    }
    os.makedirs(os.path.join(VERIF, "evidence"), exist_ok=True)
    json.dump(ev, open(os.path.join(VERIF, "evidence", pid + ".json"), "w"), indent=1)
    if rc == 0:
        print(f"OK property={pid} tier={tier} obligations={n_obl} discharged={len(discharged)} bounded={len(bounded_ok)} wall={wall:.1f}s")
    return rc


def replay(pid, path):
    body = json.load(open(path))
    print(f"replay of {body['obligation']} ({body['engine']}) for {pid}")
    if body.get("concrete_test") or (body.get("twin_result") or {}).get("concrete_test"):
        ct = body.get("concrete_test") or body["twin_result"]["concrete_test"]
        return kx.run_concrete(ct)
    # no concrete input: re-run the obligation and show whether it still fails
    if body["engine"] == "verus":
        unit = os.path.basename(body["unit_file"])[:-3]
        r = vx.verify_unit(unit, do_canary=False)
        fails = [f for f in r["failures"] if f["fn"] == body["obligation"]]
        for f in fails:
            print(f["text"])
        print("still failing" if fails else "obligation now verifies")
        return 1 if fails else 0
    print(body.get("verifier_output", ""))
    return 1


def main():
    import argparse
    ap = argparse.ArgumentParser()
    ap.add_argument("pid")
    ap.add_argument("--tier", default=os.environ.get("VERIF_TIER", "quick"))
    ap.add_argument("--replay")
    a = ap.parse_args()
    seed = int(os.environ.get("VERIF_SEED", "0") or 0)
    if a.replay:
        sys.exit(replay(a.pid, a.replay))
    sys.exit(run_property(a.pid, a.tier, seed))


if __name__ == "__main__":
    main()
