#!/usr/bin/env python3
"""vx -- build a Verus unit from a template + the real source text, run Verus, classify the outcome.

A template (units/vx/<unit>.rs.tpl) is Verus text with `//@` directives.  Plain
template text may contain only specification-level items (spec fn, proof fn,
broadcast, axioms, use); every executable function in the unit must come from
an extraction directive, i.e. from /repo's current working tree.  This is
enforced by `scan_template_exec()`.

Directive syntax (one block per item, closed by `//@end`):

  //@file A rustemo/src/lr/parser.rs
  //@struct A Name [fields=a,b] [derive=Clone,Copy]
  //@enum A Name [derive=...]
  //@trait A Name [nosuper] methods=a,b,c
  //@  fn span ret=r
  //@  | ensures r == self.v_span(),
  //@  raw
  //@  | spec fn v_span(&self) -> SourceSpan;
  //@end
  //@impl A /regex on normalised header/ [drop="literal"]...
  //@  fn pop_states ret=r [attr=verifier::loop_isolation(false)] [xbody]
  //@  | requires ...
  //@  loop 1
  //@  | invariant ...
  //@  before 1 "literal text"
  //@  | proof { ... }
  //@  after 1 "literal text"
  //@  | ...
  //@  raw
  //@  | ghost items placed at the top of the impl block
  //@end
  //@fn A name ret=r ...           (free function, same sub-directives as a method)
  //@macro A create_index index=SymbolIndex collection=SymbolVec items=struct:SymbolIndex,...
"""
import json
import os
import re
import shlex
import subprocess
import sys
import time

sys.path.insert(0, os.path.dirname(os.path.abspath(__file__)))
import rsx  # noqa: E402
from rsx import ExtractError  # noqa: E402

REPO = os.environ.get("VERIF_REPO", "/repo")
VERIF = os.path.dirname(os.path.dirname(os.path.abspath(__file__)))
BUILD = os.environ.get("VERIF_VX_BUILD") or os.path.join(VERIF, "build", "vx")


# ---------------------------------------------------------------------------
# template parsing


class Block:
    def __init__(self, kind, args, lineno):
        self.kind, self.args, self.lineno = kind, args, lineno
        self.subs = []  # list of [subkind, args, textlines]


def parse_kv(words):
    pos, kv = [], {}
    for w in words:
        if "=" in w and not w.startswith("/") and not w.startswith('"'):
            k, v = w.split("=", 1)
            kv.setdefault(k, []).append(v)
        else:
            pos.append(w)
    return pos, kv


def parse_template(path):
    segs = []  # ("raw", text) | ("block", Block)
    cur = None
    raw = []
    files = {}
    allow = []
    src_lines = []
    for line in open(path).read().split("\n"):
        m = re.match(r"//@include\s+(\S+)\s*$", line)
        if m:
            # shared template fragment (contract text used by more than one unit, literally the same)
            inc = os.path.join(os.path.dirname(path), "inc", m.group(1))
            src_lines.extend(open(inc).read().rstrip("\n").split("\n"))
        else:
            src_lines.append(line)
    for lineno, line in enumerate(src_lines, 1):
        if not line.startswith("//@"):
            if cur is not None:
                raise ExtractError(f"{path}:{lineno}: plain text inside a directive block (missing //@end?)")
            raw.append(line)
            continue
        body = line[3:]
        if cur is None:
            words = shlex.split(body.strip(), posix=False) if "/" not in body or body.strip().split()[0] != "impl" else None
            if words is None:
                # impl A /regex/ drop="..."
                m = re.match(r"\s*impl\s+(\w+)\s+/(.*?)/\s*(.*)$", body)
                if not m:
                    raise ExtractError(f"{path}:{lineno}: bad impl directive")
                rest = shlex.split(m.group(3), posix=False)
                words = ["impl", m.group(1), "/" + m.group(2) + "/"] + rest
            kind = words[0]
            if kind == "file":
                files[words[1]] = words[2]
                continue
            if kind == "allow":
                allow.append(" ".join(words[1:]))
                continue
            if kind == "end":
                raise ExtractError(f"{path}:{lineno}: stray //@end")
            if raw:
                segs.append(("raw", "\n".join(raw)))
                raw = []
            cur = Block(kind, words[1:], lineno)
            if kind in ("macro", "type", "const", "lift"):
                segs.append(("block", cur))
                cur = None
            continue
        # inside a block
        s = body.strip()
        if s == "end":
            segs.append(("block", cur))
            cur = None
            continue
        if s.startswith("|"):
            txt = body.split("|", 1)[1]
            if txt.startswith(" "):
                txt = txt[1:]
            if not cur.subs:
                cur.subs.append(["spec", [], []])
            cur.subs[-1][2].append(txt)
            continue
        if s.split(None, 1)[0] in ("cspec_text", "xexpr", "xexpr_all"):
            # raw Rust text to the end of the line (no shell-style quoting)
            words = s.split(None, 1)
        else:
            words = shlex.split(s, posix=False)
        cur.subs.append([words[0], words[1:], []])
    if cur is not None:
        raise ExtractError(f"{path}: unterminated directive block starting at line {cur.lineno}")
    if raw:
        segs.append(("raw", "\n".join(raw)))
    return segs, files, allow


EXEC_FN_RE = re.compile(r"(?m)^[^/\n]*?\bfn\s+\w+")
SPEC_PREFIX_RE = re.compile(r"\b(spec|proof|axiom)\b[^\n]*?\bfn\s+\w+\s*(<|\()?$")


def scan_template_exec(raw_text, where):
    """Refuse hand-written executable functions in a template."""
    for m in EXEC_FN_RE.finditer(raw_text):
        frag = m.group(0)
        if frag.strip() == "fn main":
            continue
        if not re.search(r"\b(spec|proof|axiom)\b", frag):
            raise ExtractError(f"{where}: template contains a hand-written exec fn: {frag.strip()!r}")


# ---------------------------------------------------------------------------
# assembling


def unq(s):
    return s[1:-1] if len(s) >= 2 and s[0] == '"' and s[-1] == '"' else s


class Unit:
    def __init__(self, name, tpl_path):
        self.name = name
        self.tpl_path = tpl_path
        self.out = []  # text chunks
        self.nlines = 0
        self.items = []  # evidence: per extracted item
        self.fn_ranges = []  # (first_line, last_line, obligation, is_exec_real)
        self.sources = {}
        self.canary_points = []  # (chunk index, offset in chunk) where `proof{assert(false);}` may be inserted
        self.exec_fns = []
        self.xexprs = {}  # helper name -> removed source text (R-XEXPR)
        self.lift_meta = {}  # virtual rel path -> lift meta (R-LIFT)
        self.failed_lifts = {}  # alias -> reason: a lift whose structural checks refused; the blocks that use it are skipped
        self.skipped = []  # (obligation, reason): functions not emitted because their lift was refused

    def emit(self, text):
        self.out.append(text)
        self.nlines += text.count("\n")

    def source(self, rel):
        if rel not in self.sources:
            p = os.path.join(REPO, rel)
            if not os.path.exists(p):
                raise ExtractError(f"anchor file missing: {rel}")
            self.sources[rel] = rsx.Source(p)
        return self.sources[rel]


def apply_fn_subs(unit, item, pc, subs_for_fn, fnargs, owner, canary):
    """Apply rules to one fn item; returns rendered text."""
    _, kv = parse_kv(fnargs)
    rsx.rule_attrs(item, pc)
    # R-XSTMTS first: the statement sequence it removes may contain log! statements
    for (sk_, sargs_, lines_) in subs_for_fn:
        if sk_ == "xstmts":
            m_ = re.match(r'(\w+)\s+"(.*?)"\s+"(.*?)"$', " ".join(sargs_))
            if not m_:
                raise ExtractError("bad xstmts directive")
            unit.xexprs[m_.group(1)] = rsx.rule_xstmts(item, pc, m_.group(2), m_.group(3), "\n".join(lines_).strip())
    if "xbody" not in fnargs:  # a dropped body needs no rewriting
        rsx.rule_log(item, pc)
        rsx.rule_refpat(item, pc)
    if "clospat" in fnargs:
        ann = {int(sa[0]): "\n".join(ls) for (sk_, sa, ls) in subs_for_fn if sk_ == "closure"}
        rsx.rule_clospat(item, pc, ann)
    if "ret" in kv:
        rsx.rule_ret(item, pc, kv["ret"][0])
    xbody = "xbody" in fnargs
    for (sk, sargs, lines) in subs_for_fn:
        text = "\n".join(lines)
        if sk == "spec":
            rsx.splice_spec(item, pc, text)
        elif sk == "loop":
            _, lkv = parse_kv(sargs[1:])
            rsx.splice_loop(item, pc, int(sargs[0]), text, iter_name=lkv.get("iter", [None])[0])
        elif sk in ("closure", "foreach_loop"):
            pass
        elif sk == "cspec":
            rsx.splice_cspec(item, pc, int(sargs[0]), text)
        elif sk == "cspec_self":
            # cspec_self retain,all bool
            rsx.splice_cspec_self(item, pc, set(sargs[0].split(",")), sargs[1])
        elif sk == "cspec_text":
            rsx.splice_cspec_text(item, pc, sargs[0], text)
        elif sk in ("xexpr", "xexpr_all"):
            # xexpr <call text> = <expression text, whitespace ignored>
            m = re.match(r'((\w+)\([^=]*\))\s+=\s+(.*)$', sargs[0])
            if not m:
                raise ExtractError("bad xexpr directive")
            unit.xexprs[m.group(2)] = rsx.rule_xexpr(item, pc, m.group(3), m.group(1), all_occurrences=(sk == "xexpr_all"))
        elif sk == "xstmts":
            pass  # applied above, before R-LOG
        elif sk == "hoist":
            # hoist <loop ordinal> "<literal>" as <name>
            m = re.match(r'(\d+)\s+"(.*)"\s+as\s+(\w+)$', " ".join(sargs))
            if not m:
                raise ExtractError("bad hoist directive")
            rsx.rule_hoist(item, pc, int(m.group(1)), m.group(2), m.group(3))
        elif sk == "loopend":
            # ghost text placed right before the closing brace of the body of loop #n (specification only)
            ls = rsx.loops_of(item)
            n = int(sargs[0])
            if n < 1 or n > len(ls):
                raise ExtractError(f"`{item.name}`: loop #{n} not found")
            ob = rsx.loop_body_open(item.src, ls[n - 1])
            pc.insert(item.src.toks[item.src.match(ob)].s, "\n" + text.rstrip() + "\n", "R-SPLICE", f"proof text at the end of the body of loop #{n}")
        elif sk == "atend":
            # ghost text placed right before the closing brace of the function body (specification only)
            pc.insert(item.src.toks[item.body_close].s, "\n" + text.rstrip() + "\n", "R-SPLICE", "proof text at the end of the function body")
        elif sk in ("before", "after"):
            rsx.splice_before(item, pc, unq(" ".join(sargs[1:])), int(sargs[0]), text, after=(sk == "after"))
        else:
            raise ExtractError(f"unknown sub-directive {sk}")
    if "allclosures" in fnargs:
        rsx.require_all_closures_specified(item, pc)
    if "foreach" in fnargs:
        # after the splices, so that ghost lines anchored at the end of the closure body land inside the loop body
        fe = [(sa, ls) for (sk_, sa, ls) in subs_for_fn if sk_ == "foreach_loop"]
        _, fkv = parse_kv(fe[0][0]) if fe else ([], {})
        rsx.rule_foreach(item, pc, "\n".join(fe[0][1]) if fe else None, fkv.get("iter", [None])[0])
    t = item.src.toks
    pre = ""
    for a in kv.get("attr", []):
        pre += f"#[{a}]\n"
    if xbody:
        rsx.make_xbody(item, pc)
        pre += "#[verifier::external_body]\n"
    if pre:
        pc.insert(t[item.vis_start].s, pre, "R-SPLICE")
    if canary and item.body_open is not None and not xbody and "outside" not in fnargs:
        pc.insert(t[item.body_open].e, " proof { assert(false); } ", "CANARY")
    if not pc.audit():
        raise ExtractError(f"audit failed for {item.name}")
    return pc.render()


def group_subs(block):
    """split block.subs into header-level subs and per-fn subs"""
    head, fns = [], []
    cur = None
    for sub in block.subs:
        if sub[0] == "fn":
            cur = (sub[1], [])
            fns.append(cur)
            if sub[2]:
                cur[1].append(["spec", [], sub[2]])
        elif sub[0] in ("raw",):
            head.append(sub)
            cur = None
        elif cur is not None:
            cur[1].append(sub)
        else:
            head.append(sub)
    return head, fns


def record_item(unit, item, rel, pc, kind, obligation=None, contract=None):
    a, b = item.lines()
    unit.items.append({
        "kind": kind, "name": item.name or item.header_norm()[:100], "file": rel, "lines": [a, b],
        "sha256_16": item.sha(), "rules": pc.rules if pc else [], "obligation": obligation,
        "contract": contract,
    })


def emit_fn(unit, item, rel, fnargs, subs, owner, canary, indent=""):
    pc = rsx.Pieces(item.src, item.start, item.end)
    try:
        text = apply_fn_subs(unit, item, pc, subs, fnargs, owner, canary)
    except ExtractError as e:
        # an extraction rule refused on THIS function (an anchor or an R-XEXPR text is gone): the function is left out and reported
        # undecided (its twins are run); the rest of the unit is still verified -- unless it calls the function, which rustc reports
        unit.skipped.append((f"{unit.name}::{owner + '::' if owner else ''}{item.name}", "extraction refused: " + str(e)))
        return
    if rel in unit.lift_meta:
        lm = unit.lift_meta[rel]
        pc.rules.append({"rule": "R-LIFT", "line": lm["lines"][0], "note": "statement range %s:%d-%d (sha256/16 %s) lifted verbatim into a method whose "
                         "receiver/parameters are exactly its free variables %s" % (lm["file"], lm["lines"][0], lm["lines"][1], lm["sha256_16"], ",".join(lm["free_variables"]))})
    obligation = f"{unit.name}::{owner + '::' if owner else ''}{item.name}"
    first = unit.nlines + 1
    unit.emit(indent + text + "\n\n")
    last = unit.nlines
    # `outside`: the item is placed outside verus!{} (plain Rust that Verus does not verify; never counted as an obligation)
    is_real = item.body_open is not None and "xbody" not in fnargs and "outside" not in fnargs
    unit.fn_ranges.append((first, last, obligation, is_real))
    contract = "\n".join("\n".join(s[2]) for s in subs if s[0] == "spec").strip()
    record_item(unit, item, rel, pc, "fn", obligation if is_real else None, contract)
    if is_real:
        unit.exec_fns.append(obligation)


def owner_of_impl(header):
    """`impl<..> Trait<..> for Type<..> where` -> Type ; `impl<..> Type<..>` -> Type"""
    h = header
    h = re.sub(r"^impl\s*", "", h)
    if h.startswith("<"):
        depth = 0
        for i, ch in enumerate(h):
            if ch == "<":
                depth += 1
            elif ch == ">" and h[i - 1] != "-":
                depth -= 1
                if depth == 0:
                    h = h[i + 1:]
                    break
    h = h.split(" where ")[0]
    if " for " in h:
        h = h.split(" for ", 1)[1]
    ms = re.match(r"\s*&?\s*\[\s*(\w+)\s*\]", h)
    if ms:
        return "[" + ms.group(1) + "]"  # slice type: `impl Input for [u8]`
    m = re.match(r"\s*&?\s*(?:'\w+\s+)?(\w+)", h)
    return m.group(1) if m else "?"


def build_unit(name, tpl_path, canary=False):
    segs, files, allow = parse_template(tpl_path)
    unit = Unit(name, tpl_path)
    unit.allow = allow
    for kind, seg in segs:
        if kind == "raw":
            scan_template_exec(seg, tpl_path)
            unit.emit(seg + "\n")
            continue
        b = seg
        pos, kv = parse_kv(b.args)
        alias = pos[0]
        if b.kind == "macro":
            # //@macro NEWALIAS FILEALIAS macro_name invoked_in=FILEALIAS2 index=SymbolIndex collection=SymbolVec
            new_alias, file_alias, mname = pos[0], pos[1], pos[2]
            msrc = unit.source(files[file_alias])
            mitem = msrc.find("macro_rules", mname)
            subst = {k: v[0] for k, v in kv.items() if k != "invoked_in"}
            text, note = rsx.expand_macro(msrc, mitem, subst)
            inv_src = unit.source(files[kv["invoked_in"][0]])
            args = ", ".join(subst[k] for k in rsx.macro_params(msrc, mitem))
            if not re.search(r"\b" + mname + r"!\s*\(\s*" + re.escape(args).replace(",\\ ", r",\s*") + r"\s*\)\s*;", inv_src.text):
                raise ExtractError(f"R-MACRO: no invocation `{mname}!({args});` in {files[kv['invoked_in'][0]]}")
            vrel = f"{files[file_alias]}#{mname}!({args})"
            files[new_alias] = vrel
            unit.sources[vrel] = rsx.Source(vrel, text=text)
            a, z = mitem.lines()
            unit.items.append({"kind": "macro", "name": f"{mname}!({args})", "file": files[file_alias], "lines": [a, z],
                               "sha256_16": mitem.sha(), "rules": [{"rule": "R-MACRO", "line": a, "note": note}], "obligation": None, "contract": None})
            continue
        if b.kind == "lift":
            # //@lift NEWALIAS conflict_block
            import lift as liftmod
            if pos[1] not in liftmod.VERUS_LIFTS:
                raise ExtractError(f"{tpl_path}:{b.lineno}: unknown lift {pos[1]}")
            try:
                text, meta = liftmod.VERUS_LIFTS[pos[1]](REPO)
            except ExtractError as e:
                # the other functions of the unit are still verified; the functions of this lift are reported undecided
                unit.failed_lifts[pos[0]] = str(e)
                continue
            vrel = f"{meta['file']}#lift:{pos[1]}"
            files[pos[0]] = vrel
            unit.sources[vrel] = rsx.Source(vrel, text=text)
            unit.lift_meta[vrel] = meta
            unit.items.append({"kind": "lift", "name": pos[1], "file": meta["file"], "lines": meta["lines"], "sha256_16": meta["sha256_16"],
                               "rules": [{"rule": "R-LIFT", "line": meta["lines"][0], "note": "free variables: " + ",".join(meta["free_variables"])}],
                               "obligation": None, "contract": None})
            continue
        if b.kind == "xexprfn":
            # //@xexprfn name / signature + ASSUMED contract lines / //@end : external_body function whose body is the removed text
            name = pos[0]
            if name not in unit.xexprs:
                if unit.failed_lifts or unit.skipped:
                    continue  # the function that uses it was skipped (refused lift / refused extraction)
                raise ExtractError(f"{tpl_path}:{b.lineno}: xexprfn {name}: no `xexpr ... as {name}(..)` fired before this directive")
            sig = "\n".join("\n".join(sub[2]) for sub in b.subs)
            if not re.match(r"\s*(pub\s+)?fn\s+" + re.escape(name) + r"\b", sig):
                raise ExtractError(f"{tpl_path}:{b.lineno}: xexprfn {name}: signature must start with `fn {name}`")
            nobody = "nobody" in pos[1:]
            unit.emit("#[verifier::external_body]\n" + sig.rstrip() + "\n{\n" + ("unimplemented!()" if nobody else unit.xexprs[name]) + "\n}\n\n")
            unit.items.append({"kind": "xexprfn", "name": name, "file": "-", "lines": [0, 0], "sha256_16": "-",
                               "rules": [{"rule": "R-XEXPR", "line": 0, "note": ("body DROPPED (the expression text is recorded under `dropped`); " if nobody else "body is the verbatim expression text; ") + "contract ASSUMED", "dropped": unit.xexprs[name][:200]}],
                               "obligation": None, "contract": sig})
            continue
        if alias in unit.failed_lifts:
            head_, fns_ = group_subs(b)
            own_ = owner_of_impl(pos[1][1:-1].lstrip("^")) if b.kind == "impl" and len(pos) > 1 else ""
            for f_ in fns_:
                unit.skipped.append((f"{unit.name}::{own_ + '::' if own_ else ''}{f_[0][0]}", "block lift refused: " + unit.failed_lifts[alias]))
            if b.kind == "fn":
                unit.skipped.append((f"{unit.name}::{pos[1]}", "block lift refused: " + unit.failed_lifts[alias]))
            continue
        if alias not in files:
            raise ExtractError(f"{tpl_path}:{b.lineno}: unknown file alias {alias}")
        rel = files[alias]
        src = unit.source(rel)
        if b.kind in ("struct", "enum"):
            item = src.find(b.kind, pos[1])
            pc = rsx.Pieces(src, item.start, item.end)
            rsx.rule_attrs(item, pc, keep_derive=set(",".join(kv.get("derive", [])).split(",")) - {""})
            if "fields" in kv:
                rsx.project_fields(item, pc, set(",".join(kv["fields"]).split(",")) - {"-", ""})
            for lit in kv.get("drop", []):
                rsx.drop_text(item, pc, unq(lit), "R-BOUND")
            if kv.get("attr"):
                note = "opaque type (R-XBODY on a type: Verus does not look inside)" if any("external_body" in a for a in kv["attr"]) else ""
                pc.insert(src.toks[item.vis_start].s, "".join(f"#[{a}]\n" for a in kv["attr"]), "R-XBODY" if note else "R-SPLICE", note)
            if not pc.audit():
                raise ExtractError("audit failed")
            unit.emit(pc.render() + "\n\n")
            record_item(unit, item, rel, pc, b.kind)
        elif b.kind in ("type", "const"):
            item = src.find(b.kind, pos[1])
            pc = rsx.Pieces(src, item.start, item.end)
            rsx.rule_attrs(item, pc)
            unit.emit(pc.render() + "\n")
            record_item(unit, item, rel, pc, b.kind)
        elif b.kind == "fn":
            item = src.find("fn", pos[1])
            head, fns = group_subs(b)
            subs = [s for s in b.subs if s[0] != "fn"]
            emit_fn(unit, item, rel, b.args[2:], subs, "", canary)
        elif b.kind in ("impl", "trait"):
            if b.kind == "impl":
                item = src.find_impl(pos[1][1:-1], has=kv.get("has", [None])[0])
                owner = owner_of_impl(item.header_norm())
            else:
                item = src.find("trait", pos[1])
                owner = item.name
            t = src.toks
            pc = rsx.Pieces(src, item.start, item.body_open)
            rsx.rule_attrs(item, pc)
            if b.kind == "trait" and "nosuper" in pos:
                rsx.drop_supertraits(item, pc)
            for lit in kv.get("drop", []):
                rsx.drop_text(item, pc, unq(lit), "R-BOUND")
            if not pc.audit():
                raise ExtractError("audit failed")
            head, fns = group_subs(b)
            unit.emit(pc.render() + "\n")
            for sub in head:
                if sub[0] == "raw":
                    txt = "\n".join(sub[2])
                    scan_template_exec(txt, f"{tpl_path}:{b.lineno}")
                    unit.emit(txt + "\n")
                elif sub[0] == "type":
                    # associated type / const copied verbatim from the source item
                    ch = item.child("type", sub[1][0])
                    unit.emit("    " + ch.text() + "\n")
                else:
                    raise ExtractError(f"{tpl_path}:{b.lineno}: unexpected `{sub[0]}` before first fn")
            wanted = [f[0][0] for f in fns]
            if b.kind == "trait":
                methods = ",".join(kv.get("methods", [])).split(",") if "methods" in kv else wanted
                methods = [m for m in methods if m and m != "-"]
                have = [c.name for c in item.children() if c.kind == "fn"]
                dropped = [m for m in have if m not in methods]
                if dropped:
                    pc.rules.append({"rule": "R-PROJ", "line": item.lines()[0], "dropped": "trait methods " + ",".join(dropped),
                                     "note": "no extracted body calls them"})
                order = methods
            else:
                order = wanted
            record_item(unit, item, rel, pc, b.kind)
            fnmap = {f[0][0]: f for f in fns}
            for mname in order:
                ch = item.child("fn", mname)
                fargs, fsubs = fnmap.get(mname, ([mname], []))
                emit_fn(unit, ch, rel, fargs[1:], fsubs, owner, canary, indent="    ")
            unit.emit("}\n\n")
        else:
            raise ExtractError(f"{tpl_path}:{b.lineno}: unknown directive {b.kind}")
    return unit


# ---------------------------------------------------------------------------
# running Verus

ERR_HEAD = re.compile(r"^(error|warning|note)(\[[A-Z0-9]+\])?: (.*)$")
LOC = re.compile(r"^\s*--> (.+?):(\d+):(\d+)")
TAG = re.compile(r"//\s*\[((?:C\d\d)(?:\s*,\s*C\d\d)*)\]")

REFUTE_MSGS = (
    "postcondition not satisfied", "precondition not satisfied", "assertion failed", "invariant not satisfied",
    "possible arithmetic underflow/overflow", "possible division by zero", "decreases not satisfied",
    "loop invariant not satisfied", "invariant not satisfied at end of loop body", "invariant not satisfied before loop",
    "possible bit shift underflow/overflow", "unreachable", "failed precondition", "recommendation not met",
    "could not prove termination", "index out of bounds", "may fail to meet its declared type invariant",
    "cannot show invariant holds", "type invariant",
)
LIMIT_MSGS = ("Resource limit (rlimit) exceeded", "while loop: Resource limit", "resource limit", "timed out", "canceled")


def split_errors(stderr):
    blocks, cur = [], None
    for line in stderr.split("\n"):
        m = ERR_HEAD.match(line)
        if m:
            if cur:
                blocks.append(cur)
            cur = {"level": m.group(1), "msg": m.group(3), "lines": [line], "locs": []}
            continue
        if cur is not None:
            cur["lines"].append(line)
            lm = LOC.match(line)
            if lm:
                cur["locs"].append((lm.group(1), int(lm.group(2))))
            # secondary spans: " 102 |   ..."  keep all numbered lines
            nm = re.match(r"^\s*(\d+)\s*\|", line)
            if nm:
                cur.setdefault("numbered", []).append(int(nm.group(1)))
    if cur:
        blocks.append(cur)
    return blocks


def run_verus(unit_path, rlimit=20, extra=None, timeout=900):
    cmd = ["verus", unit_path, "--output-json", "--time", "--rlimit", str(rlimit), "--multiple-errors", "4",
           "--num-threads", "8", "--no-report-long-running"] + (extra or [])
    t0 = time.time()
    try:
        p = subprocess.run(cmd, capture_output=True, text=True, timeout=timeout, cwd=os.path.dirname(unit_path))
        out, err, rc = p.stdout, p.stderr, p.returncode
    except subprocess.TimeoutExpired as e:
        out, err, rc = (e.stdout or b"").decode() if isinstance(e.stdout, bytes) else (e.stdout or ""), "TIMEOUT", 124
    wall = time.time() - t0
    js = None
    try:
        js = json.loads(out[out.index("{"):]) if "{" in out else None
    except Exception:
        js = None
    return {"cmd": " ".join(cmd), "rc": rc, "stdout": out, "stderr": err, "json": js, "wall_s": wall}


def fn_breakdown(js):
    res = {}
    if not js:
        return res
    for mod in js.get("times-ms", {}).get("smt", {}).get("smt-run-module-times", []):
        for f in mod.get("function-breakdown", []):
            res[f["function"]] = {"success": f.get("success"), "ms": f.get("time", 0), "rlimit": f.get("rlimit", 0),
                                  "mode": f.get("mode:", f.get("mode"))}
    return res


def classify(unit, res, unit_text):
    """-> dict(status=ok|refuted|undecided, failures=[...], undecided=[...], per_fn={...})"""
    js = res["json"]
    blocks = split_errors(res["stderr"])
    errors = [b for b in blocks if b["level"] == "error" and not b["msg"].startswith("aborting due to")]
    lines = unit_text.split("\n")
    failures, undecided = [], []
    for b in errors:
        msg = b["msg"]
        loc_lines = [ln for (_, ln) in b["locs"]] + b.get("numbered", [])
        fn = None
        for ln in loc_lines:
            for (a, z, ob, real) in unit.fn_ranges:
                if a <= ln <= z:
                    fn = ob
                    break
            if fn:
                break
        lemma = None
        if fn is None and loc_lines:
            # a failure in template text: name the enclosing proof fn (a lemma over the specification functions)
            for ln in range(min(loc_lines[0], len(lines)), 0, -1):
                lm = re.match(r"\s*(?:pub\s+)?(?:broadcast\s+)?proof\s+fn\s+(\w+)", lines[ln - 1])
                if lm:
                    lemma = f"{unit.name}::{lm.group(1)}"
                    break
        tags = set()
        # primary location first; then every numbered line that carries a tag inside a spec clause
        for ln in loc_lines:
            if 1 <= ln <= len(lines):
                m = TAG.search(lines[ln - 1])
                if m:
                    tags.update(x.strip() for x in m.group(1).split(","))
        entry = {"msg": msg, "fn": fn, "lemma": lemma, "tags": sorted(tags), "text": "\n".join(b["lines"])[:4000],
                 "line": loc_lines[0] if loc_lines else None}
        if any(k in msg for k in LIMIT_MSGS):
            undecided.append(entry)
        elif any(msg.startswith(k) or k in msg for k in REFUTE_MSGS):
            failures.append(entry)
        else:
            entry["compile"] = True
            undecided.append(entry)
    per_fn = fn_breakdown(js)
    ok = bool(js) and js.get("verification-results", {}).get("success") is True and not errors
    status = "ok" if ok else ("refuted" if failures and not [u for u in undecided if u.get("compile")] else "undecided")
    if res["rc"] == 124:
        status = "undecided"
        undecided.append({"msg": "verus timeout", "fn": None, "tags": [], "text": "", "line": None})
    return {"status": status, "failures": failures, "undecided": undecided, "per_fn": per_fn,
            "verified": (js or {}).get("verification-results", {}).get("verified"),
            "errors": (js or {}).get("verification-results", {}).get("errors")}


CHEATS = re.compile(r"\b(assume\s*\(|admit\s*\(|axiom fn|external_body|assume_specification|external_fn_specification|external_type_specification|#\[verifier::external\]|accept_recursive_types|exec_allows_no_decreases_clause)")


def scan_cheats(text, allow):
    found = []
    for i, line in enumerate(text.split("\n"), 1):
        code = line.split("//")[0]
        for m in CHEATS.finditer(code):
            found.append((i, m.group(1).strip("( "), line.strip()[:160]))
    unexpected = []
    for (i, what, line) in found:
        if not any(what in a for a in allow):
            unexpected.append((i, what, line))
    return found, unexpected


def verify_unit(name, rlimit=20, do_canary=True, keep=True, stability_seeds=()):
    """Build + verify + canary. Returns a result dict; raises ExtractError for exit-2 situations."""
    tpl = os.path.join(VERIF, "units", "vx", name + ".rs.tpl")
    os.makedirs(BUILD, exist_ok=True)
    unit = build_unit(name, tpl, canary=False)
    text = "".join(unit.out)
    path = os.path.join(BUILD, name + ".rs")
    open(path, "w").write(text)
    cheats, unexpected = scan_cheats(text, unit.allow)
    if unexpected:
        raise ExtractError(f"unit {name}: unexpected trusted construct(s): {unexpected[:3]}")
    res = run_verus(path, rlimit=rlimit)
    cls = classify(unit, res, text)
    out = {"unit": name, "path": path, "items": unit.items, "exec_fns": unit.exec_fns, "cheats": cheats,
           "verus": {k: res[k] for k in ("cmd", "rc", "wall_s")}, "stderr": res["stderr"][-20000:], **cls}
    # proof stability (thorough tier): the same unit under other SMT random seeds must verify as well; a function that verifies
    # under one seed and not under another is a brittle proof -- reported as undecided, never as a violation
    if stability_seeds and cls["status"] == "ok":
        stab = []
        for sd in stability_seeds:
            r2 = run_verus(path, rlimit=rlimit, extra=["--smt-option", f"smt.random_seed={sd}"])
            c2 = classify(unit, r2, text)
            bad = sorted({f["fn"] or f.get("lemma") or "?" for f in c2["failures"] + c2["undecided"]})
            stab.append({"seed": sd, "ok": c2["status"] == "ok", "wall_s": round(r2["wall_s"], 2), "not_verified": bad})
            if c2["status"] != "ok":
                for b_ in bad:
                    out["undecided"].append({"msg": f"proof not stable: does not verify under smt.random_seed={sd}", "fn": b_, "lemma": None, "tags": [], "text": "", "line": None})
                out["status"] = "undecided"
        out["stability"] = stab
    if unit.skipped:
        for (ob, why) in unit.skipped:
            out["undecided"].append({"msg": why, "fn": ob, "lemma": None, "tags": [], "text": why, "line": None})
        out["skipped"] = unit.skipped
        if out["status"] == "ok":
            out["status"] = "undecided"
    # vacuity guard 1: every extracted exec fn must have been seen by the SMT back end or be trivially verified
    seen = set(cls["per_fn"].keys())
    out["not_seen"] = [f for f in unit.exec_fns if f not in seen]
    if do_canary and cls["status"] == "ok" and not unit.skipped:
        cu = build_unit(name, tpl, canary=True)
        ctext = "".join(cu.out)
        cpath = os.path.join(BUILD, name + "__canary.rs")
        open(cpath, "w").write(ctext)
        cres = run_verus(cpath, rlimit=rlimit)
        ccls = classify(cu, cres, ctext)
        failed_fns = {f["fn"] for f in ccls["failures"]} | {k for k, v in ccls["per_fn"].items() if v["success"] is False}
        vacuous = [f for f in cu.exec_fns if f not in failed_fns]
        out["canary"] = {"expected_failures": len(cu.exec_fns), "observed": len(cu.exec_fns) - len(vacuous), "vacuous": vacuous,
                         "wall_s": cres["wall_s"]}
        if not keep:
            os.remove(cpath)
    return out


if __name__ == "__main__":
    import argparse
    ap = argparse.ArgumentParser()
    ap.add_argument("unit")
    ap.add_argument("--no-canary", action="store_true")
    ap.add_argument("--rlimit", type=float, default=20)
    ap.add_argument("-v", action="store_true")
    a = ap.parse_args()
    try:
        r = verify_unit(a.unit, rlimit=a.rlimit, do_canary=not a.no_canary)
    except ExtractError as e:
        print("EXTRACT-ERROR:", e)
        sys.exit(2)
    print(json.dumps({k: r[k] for k in ("unit", "status", "verified", "errors", "exec_fns", "not_seen", "verus")}, indent=1))
    if "canary" in r:
        print("canary:", r["canary"])
    for f in r["failures"]:
        print("FAIL", f["fn"], f["tags"], f["msg"])
        if a.v:
            print(f["text"])
    for f in r["undecided"]:
        print("UNDECIDED", f["fn"], f["msg"])
        print(f["text"][:3000])
    print("per_fn:", json.dumps(r["per_fn"], indent=0)[:3000])
