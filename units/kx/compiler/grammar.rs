// Kani helper (cfg(kani) only), child of rustemo_compiler::grammar so that it may build values with private fields.
use super::{ResolvingAssignment, ResolvingSymbolIndex};
use crate::index::SymbolIndex;
use crate::lang::rustemo_actions::GrammarSymbol;

/// A resolved right-hand-side element referring to symbol `idx` (harness input, not a model of anything).
pub(crate) fn mk_assignment(idx: usize) -> ResolvingAssignment {
    ResolvingAssignment {
        name: None,
        symbol: ResolvingSymbolIndex {
            index: Some(SymbolIndex(idx)),
            symbol: GrammarSymbol::Name(String::new().into()),
        },
        is_bool: false,
    }
}
