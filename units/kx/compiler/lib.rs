// Kani support for the rcomp binary's harness (cfg(kani) only): the bin crate cannot see Settings' pub(crate)
// fields, so the observer lives here.  Also: harnesses for grammar index conversions (C01).
use crate::settings::Settings;
pub use crate::settings::verif_kani_settings::{snap, Snap};

/// observer used by /verif/units/kx/compiler/main.rs
pub fn settings_snapshot(s: &Settings) -> Snap {
    snap(s)
}
pub fn settings_strings(s: &Settings) -> (usize, usize) {
    (s.input_type.len(), s.exclude.len())
}
