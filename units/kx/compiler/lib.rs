// Kani harnesses (cfg(kani) only); pulled in by a #[path] hook in /repo.
