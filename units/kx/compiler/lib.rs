// Kani support for the rcomp binary's harness (cfg(kani) only): the bin crate cannot see Settings' pub(crate)
// fields, so the observer lives here.  Also: harnesses for grammar index conversions (C01).
use crate::settings::Settings;
pub use crate::settings::verif_kani_settings::{snap, Snap};

/// observer used by /verif/units/kx/compiler/main.rs
pub fn settings_snapshot(s: &Settings) -> Snap {
    snap(s)
}
pub fn settings_strings(s: &Settings) -> (usize, usize) {
    (s.input_type.len(), s.exclude.len())
}


// ---------------------------------------------------------------------------------------------------------------
/// C16: the IntConst action never panics, whatever digit string the IntConst token regex admits (fix 7a0bb14);
/// values that fit in u32 are returned exactly.  bounded(<= 11 digits: 11 is the first length at which u32 parsing fails
/// for every string; 10 digits already overflow above 4294967295).
#[kani::proof]
#[kani::unwind(14)]
fn int_const_total() {
    use crate::lang::rustemo::{State, TokenKind};
    use rustemo::{LRContext, Position, Token};
    const N: usize = 11;
    let buf: [u8; N] = kani::any();
    let len: usize = kani::any();
    kani::assume(1 <= len && len <= N);
    let mut i = 0;
    while i < N {
        kani::assume(buf[i] >= b'0' && buf[i] <= b'9');
        i += 1;
    }
    let s = std::str::from_utf8(&buf[..len]).unwrap();
    let ctx: LRContext<str, State, TokenKind> = LRContext::new(Position::new(0, 1, 0));
    let tok = Token { kind: TokenKind::IntConst, value: s, span: Default::default() };
    let v: u32 = crate::lang::rustemo_actions::int_const(&ctx, tok).into();
    // independent evaluation in u64
    let mut w: u64 = 0;
    let mut i = 0;
    while i < len {
        if w <= u32::MAX as u64 { w = w * 10 + (buf[i] - b'0') as u64; }
        i += 1;
    }
    if w <= u32::MAX as u64 { assert!(v as u64 == w); }
    kani::cover!(w > u32::MAX as u64, "does not fit in u32");
    kani::cover!(len == 10 && w <= u32::MAX as u64, "ten digits that fit");
}

// ---------------------------------------------------------------------------------------------------------------
/// C05 "meta-data keywords: left=reduce, right=shift" (rustemo_actions.rs): each of the eight associativity keyword
/// actions returns a one-entry map whose key is the one the grammar builder looks for ("left" for left/reduce, "right"
/// for right/shift), at production and at terminal level.  complete: the functions have no input but an unused context.
/// (The maps are leaked: dropping a String-keyed BTreeMap costs CBMC minutes.)
/// NOT REGISTERED: measured -- timed out at 1200 s even so (eight one-entry String-keyed BTreeMaps); the design-phase
/// measurement (420 s for one) stands.  Seed C05f stays missed.  Kept for the record.
#[kani::proof]
#[kani::unwind(8)]
fn assoc_keywords() {
    use crate::lang::rustemo::{State, TokenKind};
    use crate::lang::rustemo_actions as a;
    use rustemo::{LRContext, Position};
    let ctx: LRContext<str, State, TokenKind> = LRContext::new(Position::new(0, 1, 0));
    let check = |m: std::collections::BTreeMap<String, a::ConstVal>, key: &str| {
        assert!(m.len() == 1, "C05: a keyword action returns more than one key");
        assert!(m.contains_key(key), "C05: associativity keyword mapped to the wrong key");
        std::mem::forget(m);
    };
    check(a::prod_meta_data_left(&ctx), "left");
    check(a::prod_meta_data_reduce(&ctx), "left");
    check(a::prod_meta_data_right(&ctx), "right");
    check(a::prod_meta_data_shift(&ctx), "right");
    check(a::term_meta_data_left(&ctx), "left");
    check(a::term_meta_data_reduce(&ctx), "left");
    check(a::term_meta_data_right(&ctx), "right");
    check(a::term_meta_data_shift(&ctx), "right");
    kani::cover!(true, "all eight executed");
}

// Concrete playback (./check <id> --replay): Kani's generated unit test is written to this file, which is empty otherwise.
include!("/verif/build/gen/playback_compiler_lib.rs");
