// Kani harness for the rcomp command line -> Settings mapping (cfg(kani) only; child of the bin crate root).  C17.
use super::*;
use rustemo_compiler::verif_kani_lib::{settings_snapshot, settings_strings};
use std::ffi::OsStr;

include!("/verif/build/gen/cli_mapping.rs");

// Settings::default() and Settings::trace() touch the process environment (foreign calls).  Stubbed: no variable set.
fn stub_env_var<K: AsRef<OsStr>>(_key: K) -> Result<String, std::env::VarError> {
    Err(std::env::VarError::NotPresent)
}
fn stub_env_set_var<K: AsRef<OsStr>, V: AsRef<OsStr>>(_key: K, _value: V) {}

fn any_cli() -> Cli {
    Cli {
        force: kani::any(),
        dot: kani::any(),
        noactions: kani::any(),
        trace: kani::any(),
        grammar_file_or_dir: PathBuf::new(),
        outdir_root: if kani::any() { Some(PathBuf::new()) } else { None },
        outdir_actions_root: if kani::any() { Some(PathBuf::new()) } else { None },
        prefer_shifts: kani::any(),
        no_shifts_over_empty: kani::any(),
        table_type: match kani::any::<u8>() { 0 => TableType::LALR, 1 => TableType::LALR_PAGER, _ => TableType::LALR_RN },
        parser_algo: if kani::any() { ParserAlgo::LR } else { ParserAlgo::GLR },
        generator_table_type: if kani::any() { GeneratorTableType::Arrays } else { GeneratorTableType::Functions },
        lexer_type: if kani::any() { LexerType::Default } else { LexerType::Custom },
        input_type: String::new(),
        builder_type: match kani::any::<u8>() { 0 => BuilderType::Default, 1 => BuilderType::Generic, _ => BuilderType::Custom },
        builder_loc_info: kani::any(),
        lexical_disamb_most_specific: if kani::any() { Some(kani::any()) } else { None },
        lexical_disamb_longest_match: if kani::any() { Some(kani::any()) } else { None },
        lexical_disamb_grammar_order: if kani::any() { Some(kani::any()) } else { None },
        fancy_regex: kani::any(),
        partial_parse: kani::any(),
        no_skip_ws: kani::any(),
        print_table: kani::any(),
        exclude: vec![],
        verbosity: kani::any(),
    }
}

/// C17 "... whether the settings are given through the library API or through the equivalent rcomp command-line
/// options": for every combination of the bool/enum options, the Settings value main() builds equals the value
/// obtained by the documented API calls (written here from the --help texts, in an order of their own).
/// complete over the bool/enum/Option<bool>/Option<path-present> fields; paths, input_type and exclude are held concrete.
#[kani::proof]
#[kani::stub(std::env::var, stub_env_var)]
#[kani::stub(std::env::set_var, stub_env_set_var)]
fn cli_equals_api() {
    let cli = any_cli();
    // documented: grammar order cannot be switched off for LR (the API panics) -- excluded here, covered below
    let glr = matches!(cli.parser_algo, ParserAlgo::GLR);
    kani::assume(glr || cli.lexical_disamb_grammar_order != Some(false));

    // --- the API route, from the option descriptions ---
    let mut api = Settings::new();
    api = api.parser_algo(cli.parser_algo.clone()); // "Parser algorithm"
    if !glr {
        api = api.table_type(cli.table_type.clone()); // "The type of LR table" (GLR always uses LALR_RN)
        api = api.prefer_shifts(cli.prefer_shifts); // "Prefer shifts ..." (GLR never prefers shifts)
        api = api.prefer_shifts_over_empty(!cli.no_shifts_over_empty); // "Do not prefer shifts over empty reductions."
    }
    api = api.force(cli.force); // "Regenerate output actions file even if exists"
    api = api.dot(cli.dot);
    api = api.actions(!cli.noactions); // "Do not generate actions"
    api = api.trace(cli.trace);
    api = api.fancy_regex(cli.fancy_regex);
    api = api.partial_parse(cli.partial_parse);
    api = api.skip_ws(!cli.no_skip_ws); // "Should whitespace be skipped" negated flag
    api = api.print_table(cli.print_table);
    api = api.generator_table_type(cli.generator_table_type.clone());
    api = api.lexer_type(cli.lexer_type.clone());
    api = api.builder_type(cli.builder_type.clone());
    api = api.builder_loc_info(cli.builder_loc_info);
    api = api.input_type(String::new());
    api = api.exclude(vec![]);
    if let Some(v) = cli.lexical_disamb_most_specific { api = api.lexical_disamb_most_specific(v); }
    if let Some(v) = cli.lexical_disamb_longest_match { api = api.lexical_disamb_longest_match(v); }
    if let Some(v) = cli.lexical_disamb_grammar_order { api = api.lexical_disamb_grammar_order(v); }
    if cli.outdir_root.is_some() { api = api.out_dir_root(PathBuf::new()); }
    if cli.outdir_actions_root.is_some() { api = api.out_dir_actions_root(PathBuf::new()); }
    let want = settings_snapshot(&api);

    // --- the command-line route: the statements of main(), lifted verbatim ---
    let got_settings = lifted_cli_to_settings(cli, Settings::new());
    let got = settings_snapshot(&got_settings);
    assert!(got == want);
    assert!(settings_strings(&got_settings) == (0, 0));
    kani::cover!(glr, "GLR chosen on the command line");
    kani::cover!(!glr, "LR chosen on the command line");
}

// Concrete playback (./check <id> --replay): Kani's generated unit test is written to this file, which is empty otherwise.
include!("/verif/build/gen/playback_compiler_main.rs");
