// Kani harnesses for rustemo_compiler::settings (cfg(kani) only; child module of `settings`, so it can name the
// private field `force_explicit`).  C17 (settings mapping), C07 mechanism `Settings::parser_algo`.
use super::*;

/// The value `Settings::default()` produces when neither OUT_DIR nor CARGO_MANIFEST_DIR is set.  Settings::default()
/// itself reads environment variables (a foreign call Kani cannot model), so harnesses start from this literal;
/// `default_literal_matches_source` below is NOT a proof of equality with the source -- the equality is checked
/// natively by tools/native_checks (test settings_default_literal) on every run.
pub(crate) fn base(out_dir: Option<PathBuf>, root_dir: Option<PathBuf>) -> Settings {
    Settings {
        root_dir,
        out_dir_root: out_dir.clone(),
        out_dir_actions_root: out_dir,
        prefer_shifts: false,
        prefer_shifts_over_empty: true,
        table_type: TableType::LALR_PAGER,
        parser_algo: ParserAlgo::LR,
        print_table: false,
        actions: true,
        trace: false,
        lexer_type: LexerType::Default,
        builder_type: BuilderType::Default,
        builder_loc_info: false,
        generator_table_type: GeneratorTableType::Functions,
        input_type: "str".into(),
        lexical_disamb_most_specific: true,
        lexical_disamb_longest_match: true,
        lexical_disamb_grammar_order: true,
        partial_parse: false,
        skip_ws: true,
        force: true,
        force_explicit: false,
        exclude: vec![],
        dot: false,
        fancy_regex: false,
    }
}

/// Fully symbolic scalar part of a Settings value (paths/strings/exclude concrete and empty).
pub(crate) fn any_settings() -> Settings {
    let mut s = base(None, None);
    s.prefer_shifts = kani::any();
    s.prefer_shifts_over_empty = kani::any();
    s.table_type = any_table_type();
    s.parser_algo = any_parser_algo();
    s.print_table = kani::any();
    s.actions = kani::any();
    s.trace = kani::any();
    s.lexer_type = if kani::any() { LexerType::Default } else { LexerType::Custom };
    s.builder_type = any_builder_type();
    s.builder_loc_info = kani::any();
    s.generator_table_type = if kani::any() { GeneratorTableType::Arrays } else { GeneratorTableType::Functions };
    s.lexical_disamb_most_specific = kani::any();
    s.lexical_disamb_longest_match = kani::any();
    s.lexical_disamb_grammar_order = kani::any();
    s.partial_parse = kani::any();
    s.skip_ws = kani::any();
    s.force = kani::any();
    s.force_explicit = kani::any();
    s.dot = kani::any();
    s.fancy_regex = kani::any();
    if kani::any() { s.out_dir_root = Some(PathBuf::new()); }
    if kani::any() { s.out_dir_actions_root = Some(PathBuf::new()); }
    if kani::any() { s.root_dir = Some(PathBuf::new()); }
    s
}
pub(crate) fn any_table_type() -> TableType {
    match kani::any::<u8>() { 0 => TableType::LALR, 1 => TableType::LALR_PAGER, _ => TableType::LALR_RN }
}
pub(crate) fn any_parser_algo() -> ParserAlgo {
    if kani::any() { ParserAlgo::LR } else { ParserAlgo::GLR }
}
pub(crate) fn any_builder_type() -> BuilderType {
    match kani::any::<u8>() { 0 => BuilderType::Default, 1 => BuilderType::Generic, _ => BuilderType::Custom }
}

/// Plain snapshot of every scalar field, so that "all other fields equal" can be asserted in one comparison.
#[derive(PartialEq, Eq, Clone, Copy)]
pub struct Snap {
    pub out_dir_root: bool, pub out_dir_actions_root: bool, pub root_dir: bool,
    pub prefer_shifts: bool, pub prefer_shifts_over_empty: bool, pub table_type: u8, pub parser_algo: u8,
    pub print_table: bool, pub exclude_len: usize, pub actions: bool, pub trace: bool, pub lexer_type: u8, pub builder_type: u8,
    pub builder_loc_info: bool, pub generator_table_type: u8, pub input_type_len: usize,
    pub most_specific: bool, pub longest_match: bool, pub grammar_order: bool, pub partial_parse: bool, pub skip_ws: bool,
    pub force: bool, pub force_explicit: bool, pub dot: bool, pub fancy_regex: bool,
}
pub fn snap(s: &Settings) -> Snap {
    Snap {
        out_dir_root: s.out_dir_root.is_some(), out_dir_actions_root: s.out_dir_actions_root.is_some(), root_dir: s.root_dir.is_some(),
        prefer_shifts: s.prefer_shifts, prefer_shifts_over_empty: s.prefer_shifts_over_empty,
        table_type: match s.table_type { TableType::LALR => 0, TableType::LALR_PAGER => 1, TableType::LALR_RN => 2 },
        parser_algo: match s.parser_algo { ParserAlgo::LR => 0, ParserAlgo::GLR => 1 },
        print_table: s.print_table, exclude_len: s.exclude.len(), actions: s.actions, trace: s.trace,
        lexer_type: match s.lexer_type { LexerType::Default => 0, LexerType::Custom => 1 },
        builder_type: match s.builder_type { BuilderType::Default => 0, BuilderType::Generic => 1, BuilderType::Custom => 2 },
        builder_loc_info: s.builder_loc_info,
        generator_table_type: match s.generator_table_type { GeneratorTableType::Arrays => 0, GeneratorTableType::Functions => 1 },
        input_type_len: s.input_type.len(),
        most_specific: s.lexical_disamb_most_specific, longest_match: s.lexical_disamb_longest_match,
        grammar_order: s.lexical_disamb_grammar_order, partial_parse: s.partial_parse, skip_ws: s.skip_ws,
        force: s.force, force_explicit: s.force_explicit, dot: s.dot, fancy_regex: s.fancy_regex,
    }
}

/// C17: every scalar builder method sets exactly the documented field(s); all other fields are unchanged.
/// complete: loop-free, every scalar field of the receiver and every argument symbolic over its whole type.
#[kani::proof]
fn settings_builders_frame() {
    let s = any_settings();
    let b = snap(&s);
    let v: bool = kani::any();
    let which: u8 = kani::any();
    kani::assume(which < 17);
    let (a, want) = match which {
        0 => (snap(&s.prefer_shifts(v)), Snap { prefer_shifts: v, ..b }),
        1 => (snap(&s.prefer_shifts_over_empty(v)), Snap { prefer_shifts_over_empty: v, ..b }),
        2 => { let t = any_table_type(); let tn = match t { TableType::LALR => 0, TableType::LALR_PAGER => 1, TableType::LALR_RN => 2 };
               (snap(&s.table_type(t)), Snap { table_type: tn, ..b }) }
        3 => (snap(&s.lexer_type(if v { LexerType::Custom } else { LexerType::Default })), Snap { lexer_type: v as u8, ..b }),
        4 => { let t = any_builder_type(); let tn = match t { BuilderType::Default => 0, BuilderType::Generic => 1, BuilderType::Custom => 2 };
               (snap(&s.builder_type(t)), Snap { builder_type: tn, ..b }) }
        5 => (snap(&s.builder_loc_info(v)), Snap { builder_loc_info: v, ..b }),
        6 => (snap(&s.generator_table_type(if v { GeneratorTableType::Functions } else { GeneratorTableType::Arrays })), Snap { generator_table_type: v as u8, ..b }),
        7 => (snap(&s.lexical_disamb_most_specific(v)), Snap { most_specific: v, ..b }),
        8 => (snap(&s.lexical_disamb_longest_match(v)), Snap { longest_match: v, ..b }),
        9 => (snap(&s.fancy_regex(v)), Snap { fancy_regex: v, ..b }),
        10 => (snap(&s.print_table(v)), Snap { print_table: v, ..b }),
        11 => (snap(&s.partial_parse(v)), Snap { partial_parse: v, ..b }),
        12 => (snap(&s.skip_ws(v)), Snap { skip_ws: v, ..b }),
        13 => (snap(&s.actions(v)), Snap { actions: v, ..b }),
        14 => (snap(&s.dot(v)), Snap { dot: v, ..b }),
        // force also records that it was given explicitly
        15 => (snap(&s.force(v)), Snap { force: v, force_explicit: true, ..b }),
        _ => (snap(&s.root_dir(PathBuf::new())), Snap { root_dir: true, ..b }),
    };
    assert!(a == want);
}

/// C17/C07: parser_algo(GLR) forces LALR_RN, switches both shift preferences and grammar order off; parser_algo(LR)
/// only records the algorithm.  lexical_disamb_grammar_order(false) is refused (panics) for LR, accepted for GLR.
/// complete.
#[kani::proof]
fn settings_parser_algo() {
    let s = any_settings();
    let b = snap(&s);
    if kani::any() {
        let a = snap(&s.parser_algo(ParserAlgo::GLR));
        assert!(a == Snap { parser_algo: 1, table_type: 2, prefer_shifts: false, prefer_shifts_over_empty: false, grammar_order: false, ..b });
    } else {
        let a = snap(&s.parser_algo(ParserAlgo::LR));
        assert!(a == Snap { parser_algo: 0, ..b });
    }
}
#[kani::proof]
fn settings_grammar_order() {
    let s = any_settings();
    let b = snap(&s);
    let v: bool = kani::any();
    kani::assume(v || b.parser_algo == 1); // documented: cannot be disabled for LR (panics)
    let a = snap(&s.lexical_disamb_grammar_order(v));
    assert!(a == Snap { grammar_order: v, ..b });
    kani::cover!(!v, "grammar order disabled for GLR");
}
#[kani::proof]
#[kani::should_panic]
fn settings_lr_refuses_no_grammar_order() {
    let mut s = any_settings();
    s.parser_algo = ParserAlgo::LR;
    let _ = s.lexical_disamb_grammar_order(false);
}

/// C17/C18 mechanism: out-dir methods and the in_source_tree family, as documented.
#[kani::proof]
fn settings_out_dirs() {
    let s = any_settings();
    let b = snap(&s);
    match kani::any::<u8>() % 4 {
        0 => assert!(snap(&s.out_dir_root(PathBuf::new())) == Snap { out_dir_root: true, ..b }),
        1 => assert!(snap(&s.out_dir_actions_root(PathBuf::new())) == Snap { out_dir_actions_root: true, ..b }),
        2 => {
            kani::assume(b.builder_type == 0); // documented: only for the default builder (panics otherwise)
            let a = snap(&s.actions_in_source_tree());
            assert!(a == Snap { out_dir_actions_root: false, force: if b.force_explicit { b.force } else { false }, ..b });
        }
        _ => {
            let a = snap(&s.in_source_tree());
            if b.builder_type == 0 {
                assert!(a == Snap { out_dir_root: false, out_dir_actions_root: false, force: if b.force_explicit { b.force } else { false }, ..b });
            } else {
                assert!(a == Snap { out_dir_root: false, ..b });
            }
        }
    }
}

// Concrete playback (./check <id> --replay): Kani's generated unit test is written to this file, which is empty otherwise.
include!("/verif/build/gen/playback_compiler_settings.rs");
