// Kani harnesses for rustemo_compiler::table (cfg(kani) only; child module of `table`, so private items are in reach).
// C05 (conflict resolution rule), C02 (resolution only removes candidates), C16 (no abort), C06 (sort_terminals), C01 (LRItem).
use super::*;
use crate::grammar::verif_kani_grammar::mk_assignment;
use crate::grammar::{NonTerminal, Production};
use crate::settings::verif_kani_settings::base as base_settings;
use std::cell::RefCell;

include!("/verif/build/gen/conflict_block.rs");
include!("/verif/build/gen/sort_block.rs");

fn any_assoc() -> Associativity {
    match kani::any::<u8>() {
        0 => Associativity::None,
        1 => Associativity::Left,
        _ => Associativity::Right,
    }
}

fn mk_grammar(prods: Vec<Production>, terms: Vec<Terminal>) -> Grammar {
    Grammar {
        imports: Default::default(),
        productions: ProdVec(prods),
        terminals: TermVec(terms),
        nonterminals: NonTermVec(vec![NonTerminal::default()]),
        nonterm_by_name: BTreeMap::new(),
        term_by_name: BTreeMap::new(),
        empty_index: SymbolIndex(2),
        stop_index: SymbolIndex(0),
        augmented_index: SymbolIndex(3),
        augmented_layout_index: None,
        start_index: SymbolIndex(4),
    }
}

#[derive(Clone, Copy, PartialEq, Eq)]
enum A {
    Shift,
    Accept,
    Reduce(usize, usize),
}
fn abs(a: &Action) -> A {
    match a {
        Action::Shift(_) => A::Shift,
        Action::Accept => A::Accept,
        Action::Reduce(p, l) => A::Reduce(p.0, *l),
    }
}
/// number of occurrences of `x` among the (at most four) entries of the cell -- loop-free on purpose
fn occurrences(cell: &Vec<Action>, x: A) -> usize {
    let mut n = 0;
    if let Some(a) = cell.get(0) { if abs(a) == x { n += 1; } }
    if let Some(a) = cell.get(1) { if abs(a) == x { n += 1; } }
    if let Some(a) = cell.get(2) { if abs(a) == x { n += 1; } }
    if let Some(a) = cell.get(3) { if abs(a) == x { n += 1; } }
    n
}

const NEW: usize = 3; // production index of the reduction being added

/// The documented rule (C05 statement + docs/src/grammar_language.md "Disambiguation rules"), written independently
/// of the code: which of the entries of the cell survive (shift, earlier reduction 1, earlier reduction 2) and whether
/// the new reduction is added.
#[allow(clippy::too_many_arguments)]
fn expected(
    has_shift: bool, nred: usize, l1: usize, l2: usize, new_prod_len: usize, prio: u32, shift_prio: u32, prod_assoc: u8,
    term_assoc: u8, prefer_shifts: bool, prefer_shifts_over_empty: bool, nops: bool, nopse: bool, empty: bool, lr: bool,
    red_prio: [u32; 2],
) -> (bool, bool, bool, bool) {
    let mut keep_shift = has_shift;
    let mut consider_reduce = true;
    if has_shift {
        if prio > shift_prio {
            keep_shift = false; // the higher priority wins
        } else if prio < shift_prio {
            consider_reduce = false;
        } else {
            // equal priority: associativity decides, the terminal's overriding the production's
            let assoc = if term_assoc != 0 { term_assoc } else { prod_assoc };
            if assoc == 1 {
                keep_shift = false; // left / reduce keeps the reduction
            } else if assoc == 2 {
                consider_reduce = false; // right / shift keeps the shift
            } else {
                let prefer = if empty { prefer_shifts_over_empty && !nopse } else { prefer_shifts && !nops };
                if prefer { consider_reduce = false; } // otherwise both stay: reported (LR) or kept (GLR)
            }
        }
    }
    let r1 = nred >= 1;
    let r2 = nred >= 2;
    if !consider_reduce { return (keep_shift, r1, r2, false); }
    if nred == 0 { return (keep_shift, false, false, true); }
    // reduce/reduce: strictly lower than all -> dropped; strictly higher than all -> replaces them
    let lower_than_all = prio < red_prio[0] && (!r2 || prio < red_prio[1]);
    let higher_than_all = prio > red_prio[0] && (!r2 || prio > red_prio[1]);
    if lower_than_all { return (keep_shift, r1, r2, false); }
    if higher_than_all { return (keep_shift, false, false, true); }
    if lr {
        // LR prefers non-empty reductions over empty ones
        let k1 = r1 && l1 != 0;
        let k2 = r2 && l2 != 0;
        let nothing_left = !keep_shift && !k1 && !k2;
        return (keep_shift, k1, k2, new_prod_len > 0 || nothing_left);
    }
    (keep_shift, r1, r2, true)
}

/// bounded: a decision table of concrete (cell shape, priority order, associativity pair, earlier-reduction length) cases,
/// one or two cases per harness (more exhausts memory: four cases peaked at 20 GB), chosen to cover every branch of the documented rule and the interplay between
/// the shift/reduce and the reduce/reduce stage.  Per case only the attributes the rule says can matter there are
/// symbolic (last argument): M0 none (empty = false, LR, all flags off), ME / MG empty / non-empty (LR / GLR), MF the four flags prefer_shifts,
/// prefer_shifts_over_empty, nops, nopse and empty / non-empty, ML LR / GLR and empty / non-empty, MA all of them.
/// MEASURED LIMIT: only cells with ONE entry ([Shift], [Accept], [Reduce]) are within reach.  Every harness on a cell with two
/// entries -- including the single concrete case of defect F3, [Shift, Reduce] meeting a higher-priority reduce -- exceeded
/// 48 GB in CBMC's propositional reduction (partition / retain over two heap-allocated actions), with the record types
/// and with the real types alike.  So the interplay of the shift/reduce and reduce/reduce stages is NOT covered.
/// Why not more per harness: one fully symbolic case costs CBMC about a minute and 5-10 GB (150 000 symex steps through Vec::clone /
/// partition / retain / map / collect / all); a version with every scalar symbolic over its whole type exhausted 30 GB;
/// an exhaustive enumeration of priorities in {9,10,11} x associativities x lengths would be 11 664 cases for the largest
/// shape.
/// Argument order of conflict_case: has_shift, accept, nred, prio, shift_prio, [prio r1, prio r2], prod assoc, term assoc
/// (0 none, 1 left, 2 right), len r1, len r2, mode.
const M0: u8 = 0;
const MF: u8 = 1;
const ML: u8 = 2;
const MA: u8 = 3;
const ME: u8 = 4; // empty / non-empty symbolic, LR
const MG: u8 = 5; // empty / non-empty symbolic, GLR

#[kani::proof]
#[kani::unwind(5)]
fn c5_prio() {
    // the higher priority wins
    conflict_case(true, false, 0, 9, 10, [10, 10], 0, 0, 0, 0, M0);
    conflict_case(true, false, 0, 11, 10, [10, 10], 2, 0, 0, 0, ML);
    kani::cover!(true, "all cases executed");
}
#[kani::proof]
#[kani::unwind(5)]
fn c5_prod_assoc() {
    // equal priority: the production's associativity (left keeps the reduction, right the shift)
    conflict_case(true, false, 0, 10, 10, [10, 10], 1, 0, 0, 0, M0);
    conflict_case(true, false, 0, 10, 10, [10, 10], 2, 0, 0, 0, M0);
    kani::cover!(true, "all cases executed");
}
#[kani::proof]
#[kani::unwind(5)]
fn c5_term_overrides() {
    // equal priority: the terminal's associativity overrides the production's
    conflict_case(true, false, 0, 10, 10, [10, 10], 2, 1, 0, 0, M0);
    conflict_case(true, false, 0, 10, 10, [10, 10], 1, 2, 0, 0, M0);
    kani::cover!(true, "all cases executed");
}
#[kani::proof]
#[kani::unwind(5)]
fn c5_flags() {
    // nothing but prefer_shifts / prefer_shifts_over_empty / nops / nopse / empty decides
    conflict_case(true, false, 0, 10, 10, [10, 10], 0, 0, 0, 0, MF);
    kani::cover!(true, "all cases executed");
}
#[kani::proof]
#[kani::unwind(5)]
fn c5_rr_lower() {
    // reduce/reduce: strictly lower than all is dropped
    conflict_case(false, false, 1, 9, 10, [10, 10], 0, 0, 1, 0, M0);
    kani::cover!(true, "all cases executed");
}
#[kani::proof]
#[kani::unwind(5)]
fn c5_term_alone() {
    // equal priority: terminal associativity alone
    conflict_case(true, false, 0, 10, 10, [10, 10], 0, 1, 0, 0, M0);
    conflict_case(true, false, 0, 10, 10, [10, 10], 0, 2, 0, 0, M0);
    kani::cover!(true, "all cases executed");
}
#[kani::proof]
#[kani::unwind(5)]
fn c5_accept_only() {
    // ACCEPT competes with the default priority 10
    conflict_case(true, true, 0, 10, 10, [10, 10], 0, 0, 0, 0, MF);
    conflict_case(true, true, 0, 11, 10, [10, 10], 0, 0, 0, 0, M0);
    kani::cover!(true, "all cases executed");
}
#[kani::proof]
#[kani::unwind(5)]
fn c5_rr_single_higher() {
    // reduce/reduce: strictly higher than the earlier reduction replaces it
    conflict_case(false, false, 1, 11, 10, [10, 10], 0, 0, 1, 0, M0);
    // the same under GLR, where the new (right-nulled) reduction has length 0 and the one it replaces length 1: the
    // surviving entry must be the NEW reduction, length included (seed C02d)
    conflict_case(false, false, 1, 11, 10, [10, 10], 0, 0, 1, 0, MG);
    kani::cover!(true, "all cases executed");
}
#[kani::proof]
#[kani::unwind(5)]
fn c5_rr_equal() {
    // reduce/reduce with equal priorities
    conflict_case(false, false, 1, 10, 10, [10, 10], 0, 0, 0, 0, ME);
    kani::cover!(true, "all cases executed");
}

fn assoc_of(a: u8) -> Associativity {
    match a { 0 => Associativity::None, 1 => Associativity::Left, _ => Associativity::Right }
}

/// One case against the RECORD copy of the lifted statements (see build/gen/conflict_block.rs).
#[allow(clippy::too_many_arguments)]
fn conflict_case(has_shift: bool, accept: bool, nred: usize, prio: u32, shift_prio: u32,
                 red_prio: [u32; 2], pa: u8, ta: u8, l1: usize, l2: usize, mode: u8) {
    let flags = mode == MF || mode == MA;
    let empty: bool = if mode != M0 { kani::any() } else { false };
    let lr: bool = if mode == ML || mode == MA { kani::any() } else { mode != MG };
    let nops: bool = if flags { kani::any() } else { false };
    let nopse: bool = if flags { kani::any() } else { false };
    let settings = RecSettings {
        prefer_shifts: if flags { kani::any() } else { false },
        prefer_shifts_over_empty: if flags { kani::any() } else { false },
        parser_algo: if lr { ParserAlgo::LR } else { ParserAlgo::GLR },
    };
    // productions 1, 2 are the reductions already in the cell, production 3 is the new one
    let mk = |prio: u32, assoc: Associativity, nops: bool, nopse: bool, rhs: usize| RecProd {
        prio, assoc, nops, nopse, rhs: if rhs == 0 { vec![] } else { vec![()] },
    };
    let grammar = RecGrammar {
        productions: ProdVec(vec![
            mk(10, Associativity::None, false, false, 1),
            mk(red_prio[0], Associativity::None, false, false, 1),
            mk(red_prio[1], Associativity::None, false, false, 1),
            mk(prio, assoc_of(pa), nops, nopse, if empty { 0 } else { 1 }),
        ]),
    };
    let term = RecTerm { idx: TermIndex(1), assoc: assoc_of(ta) };
    let prod_len = if empty { 0 } else { 1 };
    // LR: the item reduces at its end; GLR (right-nulled): it may also reduce at position 0 of a one-symbol production
    let position: usize = if lr { prod_len } else { 0 };
    let item = RecItem { prod: ProdIndex(NEW), prod_len, position };
    let new_reduce = Action::Reduce(ProdIndex(NEW), position);

    // ---- the cell before: [Shift|Accept]? then 0..2 reductions (by production 1 / 2, length 0 or 1), not empty ----
    let mut cell: Vec<Action> = Vec::with_capacity(8); // pushes in the lifted statements then never reallocate
    if has_shift { cell.push(if accept { Action::Accept } else { Action::Shift(StateIndex(7)) }); }
    if nred >= 1 { cell.push(Action::Reduce(ProdIndex(1), l1)); }
    if nred >= 2 { cell.push(Action::Reduce(ProdIndex(2), l2)); }

    let mut state = RecState { max_prior_for_term: BTreeMap::new() };
    if has_shift && !accept {
        // group_per_next_symbol records a priority for every terminal that has a Shift in the state
        state.max_prior_for_term.insert(TermIndex(1), shift_prio);
    }
    let eff_shift_prio = if accept { DEFAULT_PRIORITY } else { shift_prio };

    // ---- run the real statements ----
    let ctx = RecCtx { settings: &settings, grammar: &grammar };
    ctx.conflict_block(&state, &item, &grammar.productions[ProdIndex(NEW)], &term, &mut cell, new_reduce);

    check_cell(&cell, has_shift, accept, nred, l1, l2, prod_len, position, prio, eff_shift_prio, pa, ta, settings.prefer_shifts,
               settings.prefer_shifts_over_empty, nops, nopse, empty, lr, red_prio);
    std::mem::forget(cell);
    std::mem::forget(state);
    std::mem::forget(grammar);
}

/// compare the cell after resolution with the documented rule
#[allow(clippy::too_many_arguments)]
fn check_cell(cell: &Vec<Action>, has_shift: bool, accept: bool, nred: usize, l1: usize, l2: usize, prod_len: usize, position: usize,
              prio: u32, eff_shift_prio: u32, pa: u8, ta: u8, prefer_shifts: bool, prefer_shifts_over_empty: bool, nops: bool,
              nopse: bool, empty: bool, lr: bool, red_prio: [u32; 2]) {
    let (ks, k1, k2, add) = expected(has_shift, nred, l1, l2, prod_len, prio, eff_shift_prio, pa, ta, prefer_shifts,
                                     prefer_shifts_over_empty, nops, nopse, empty, lr, red_prio);
    let sh = if accept { A::Accept } else { A::Shift };
    assert!(occurrences(cell, sh) == ks as usize, "C05: shift/accept kept or dropped against the documented rule");
    assert!(occurrences(cell, A::Reduce(1, l1)) == k1 as usize, "C05: earlier reduction 1 kept or dropped against the rule");
    assert!(occurrences(cell, A::Reduce(2, l2)) == k2 as usize, "C05: earlier reduction 2 kept or dropped against the rule");
    assert!(occurrences(cell, A::Reduce(NEW, position)) == add as usize, "C05: new reduction added or not against the rule");
    // C02: resolution only removes candidates (or adds the reduction under consideration): nothing else is in the cell
    assert!(cell.len() == ks as usize + k1 as usize + k2 as usize + add as usize, "C02: an action appeared from nowhere");
}

/// One case against the copy compiled with the REAL types (LRState, LRItem, Production, Terminal, Settings, Grammar).
#[allow(clippy::too_many_arguments)]
fn conflict_case_real(has_shift: bool, accept: bool, nred: usize, prio: u32, shift_prio: u32,
                      red_prio: [u32; 2], pa: u8, ta: u8, l1: usize, l2: usize, mode: u8) {
    let flags = mode == MF || mode == MA;
    let empty: bool = if mode != M0 { kani::any() } else { false };
    let lr: bool = if mode == ML || mode == MA { kani::any() } else { mode != MG };
    let nops: bool = if flags { kani::any() } else { false };
    let nopse: bool = if flags { kani::any() } else { false };
    let mut settings_owned = base_settings(None, None);
    settings_owned.prefer_shifts = if flags { kani::any() } else { false };
    settings_owned.prefer_shifts_over_empty = if flags { kani::any() } else { false };
    settings_owned.parser_algo = if lr { ParserAlgo::LR } else { ParserAlgo::GLR };
    let mk = |prio: u32, assoc: Associativity, nops: bool, nopse: bool, rhs: usize, idx: usize| Production {
        idx: ProdIndex(idx),
        nonterminal: NonTermIndex(0),
        rhs: if rhs == 0 { vec![] } else { vec![mk_assignment(1)] },
        assoc, prio, nops, nopse,
        ..Production::default()
    };
    let prods = vec![
        mk(10, Associativity::None, false, false, 1, 0),
        mk(red_prio[0], Associativity::None, false, false, 1, 1),
        mk(red_prio[1], Associativity::None, false, false, 1, 2),
        mk(prio, assoc_of(pa), nops, nopse, if empty { 0 } else { 1 }, NEW),
    ];
    let terms = vec![
        Terminal { idx: TermIndex(0), ..Default::default() },
        Terminal { idx: TermIndex(1), assoc: assoc_of(ta), ..Default::default() },
    ];
    let grammar_owned = mk_grammar(prods, terms);
    let grammar = &grammar_owned;
    let settings = &settings_owned;
    let prod_len = if empty { 0 } else { 1 };
    let position: usize = if lr { prod_len } else { 0 };
    let item = LRItem { prod: ProdIndex(NEW), prod_len, rn_len: if lr { None } else { Some(position) }, position, follow: RefCell::new(Follow::new()) };
    let new_reduce = Action::Reduce(ProdIndex(NEW), position);
    let mut cell: Vec<Action> = Vec::with_capacity(8); // pushes in the lifted statements then never reallocate
    if has_shift { cell.push(if accept { Action::Accept } else { Action::Shift(StateIndex(7)) }); }
    if nred >= 1 { cell.push(Action::Reduce(ProdIndex(1), l1)); }
    if nred >= 2 { cell.push(Action::Reduce(ProdIndex(2), l2)); }
    let mut state = LRState::new(grammar, StateIndex(0), SymbolIndex(0));
    if has_shift && !accept {
        state.max_prior_for_term.insert(TermIndex(1), shift_prio);
    }
    let eff_shift_prio = if accept { DEFAULT_PRIORITY } else { shift_prio };
    let ctx = LiftCtx { settings, grammar };
    ctx.conflict_block(&state, &item, &grammar.productions[ProdIndex(NEW)], &grammar.terminals[TermIndex(1)], &mut cell, new_reduce);
    check_cell(&cell, has_shift, accept, nred, l1, l2, prod_len, position, prio, eff_shift_prio, pa, ta, settings.prefer_shifts,
               settings.prefer_shifts_over_empty, nops, nopse, empty, lr, red_prio);
    // dropping Grammar/Production/Terminal values (String-keyed BTreeMaps) costs CBMC ~10 minutes of drop glue: leak them
    std::mem::forget(cell);
    std::mem::forget(state);
    std::mem::forget(item);
    std::mem::forget(grammar_owned);
    std::mem::forget(settings_owned);
}

/// Smoke case on the copy compiled against the real types: equal priorities, no associativity (the flags decide), on
/// the cell [Shift].
#[kani::proof]
#[kani::unwind(5)]
fn c5_real_types_shift() {
    conflict_case_real(true, false, 0, 10, 10, [10, 10], 0, 0, 0, 0, MF);
}

/// C05 "shift priority = max priority of productions shifting the terminal in this state": the real
/// LRState::group_per_next_symbol on a state with two items that both have terminal 1 right of the dot, from productions
/// of priorities (p1, p2).  bounded: two items, one terminal, a decision table of the three orderings of the two
/// priorities with concrete values.  NOT REGISTERED: measured -- with symbolic priorities the BTreeMap entry API exceeded the
/// 20 GB cap; with the concrete table below it timed out at 1500 s.  Seed C05c stays missed.  Kept for the record.
fn max_prior_case(p1: u32, p2: u32) {
    let mk = |prio: u32, idx: usize| Production {
        idx: ProdIndex(idx),
        nonterminal: NonTermIndex(0),
        rhs: vec![mk_assignment(1)],
        prio,
        ..Production::default()
    };
    let prods = vec![mk(10, 0), mk(p1, 1), mk(p2, 2)];
    let terms = vec![
        Terminal { idx: TermIndex(0), ..Default::default() },
        Terminal { idx: TermIndex(1), ..Default::default() },
    ];
    let grammar_owned = mk_grammar(prods, terms);
    let grammar = &grammar_owned;
    let mut state = LRState::new(grammar, StateIndex(0), SymbolIndex(0));
    state.items.push(LRItem { prod: ProdIndex(1), prod_len: 1, rn_len: None, position: 0, follow: RefCell::new(Follow::new()) });
    state.items.push(LRItem { prod: ProdIndex(2), prod_len: 1, rn_len: None, position: 0, follow: RefCell::new(Follow::new()) });
    let groups = state.group_per_next_symbol();
    let want = if p1 >= p2 { p1 } else { p2 };
    assert!(state.max_prior_for_term.len() == 1);
    assert!(state.max_prior_for_term.get(&TermIndex(1)) == Some(&want), "C05: shift priority is not the maximum over the shifting productions");
    // both items are grouped under the symbol right of the dot, in item order
    let g = groups.get(&SymbolIndex(1));
    assert!(groups.len() == 1);
    assert!(matches!(g, Some(v) if v.len() == 2 && v[0] == ItemIndex(0) && v[1] == ItemIndex(1)));
    std::mem::forget(groups);
    std::mem::forget(state);
    std::mem::forget(grammar_owned);
}
#[kani::proof]
#[kani::unwind(6)]
fn max_prior_for_term_is_max() {
    max_prior_case(5, 9);
    max_prior_case(9, 5);
    max_prior_case(7, 7);
    kani::cover!(true, "all cases executed");
}

/// C01: LRItem predicates.  complete (loop-free, all usize values).
#[kani::proof]
fn lr_item_predicates() {
    let prod: usize = kani::any();
    let prod_len: usize = kani::any();
    let position: usize = kani::any();
    let rn: Option<usize> = if kani::any() { Some(kani::any()) } else { None };
    let item = LRItem { prod: ProdIndex(prod), prod_len, rn_len: rn, position, follow: RefCell::new(Follow::new()) };
    assert!(item.is_kernel() == (position > 0 || prod == 0));
    // without right-nulled lengths (LR tables) an item reduces exactly at the end of its production
    if rn.is_none() {
        assert!(item.is_reducing() == (position == prod_len));
    } else {
        assert!(item.is_reducing() == (position == prod_len || position >= rn.unwrap()));
    }
    if position < prod_len {
        let next = item.inc_position();
        assert!(next.position == position + 1 && next.position <= next.prod_len);
        assert!(next.prod == ProdIndex(prod) && next.prod_len == prod_len && next.rn_len == rn);
        assert!(next.is_kernel());
    }
}


// ---------------------------------------------------------------------------------------------------------------
// C06: LRTable::sort_terminals -- the order in which the lexer tries the terminals of a state, and the finish flags.
fn any_recognizer(kind: u8) -> Option<Recognizer> {
    match kind {
        0 => None,
        1 => Some(Recognizer::StrConst(String::from("a").into())),
        2 => Some(Recognizer::StrConst(String::from("ab").into())),
        3 => Some(Recognizer::StrConst(String::from("abc").into())),
        _ => Some(Recognizer::RegexTerm(String::from("x+").into())),
    }
}
/// bounded(one state, 3 grammar terminals; a decision table of two concrete (priorities, recognizers, which terminals
/// have actions) configurations per harness (four took more than 15 minutes), one harness with most_specific on and one with it off.  A version with
/// priorities, recognizer kinds and the flag symbolic did not finish in 20 minutes.)
fn sort_terminals_case(prio: [u32; 3], rk: [u8; 3], has: [bool; 3], ms: bool) {
    const N: usize = 3;
    let mut settings = base_settings(None, None);
    settings.lexical_disamb_most_specific = ms;
    let terms = vec![
        Terminal { idx: TermIndex(0), prio: prio[0], recognizer: any_recognizer(rk[0]), ..Default::default() },
        Terminal { idx: TermIndex(1), prio: prio[1], recognizer: any_recognizer(rk[1]), ..Default::default() },
        Terminal { idx: TermIndex(2), prio: prio[2], recognizer: any_recognizer(rk[2]), ..Default::default() },
    ];
    let grammar = mk_grammar(vec![], terms);
    let mut state = LRState::new(&grammar, StateIndex(0), SymbolIndex(0));
    let mut i = 0;
    while i < N {
        if has[i] { state.actions[TermIndex(i)].push(Action::Shift(StateIndex(1))); }
        i += 1;
    }
    let mut table = LRTable {
        states: StateVec(vec![state]),
        layout_state: None,
        grammar: &grammar,
        settings: &settings,
        first_sets: SymbolVec::new(),
        production_rn_lengths: None,
    };
    table.sort_terminals();
    let sorted = &table.states[StateIndex(0)].sorted_terminals;

    // specificity as the property states it: string recognizers by length, regex (and no recognizer) last
    let spec = |t: usize| -> u32 { if ms && rk[t] >= 1 && rk[t] <= 3 { rk[t] as u32 } else { 0 } };
    let is_str = |t: usize| -> bool { rk[t] >= 1 && rk[t] <= 3 };
    // 1. exactly the terminals that have actions, each once
    let n_has = has[0] as usize + has[1] as usize + has[2] as usize;
    assert!(sorted.len() == n_has);
    let mut t = 0;
    while t < N {
        let mut c = 0;
        let mut j = 0;
        while j < sorted.len() { if sorted[j].0 == TermIndex(t) { c += 1; } j += 1; }
        assert!(c == has[t] as usize);
        t += 1;
    }
    // 2. order: priority descending; then (if enabled) most specific first; then grammar order
    let mut j = 0;
    while j + 1 < sorted.len() {
        let (a, b) = (sorted[j].0 .0, sorted[j + 1].0 .0);
        assert!(prio[a] > prio[b] || (prio[a] == prio[b] && (spec(a) > spec(b) || (spec(a) == spec(b) && a < b))), "C06: terminals tried in the wrong order");
        j += 1;
    }
    // 3. finish flags: a matched string recognizer ends the search iff most-specific is on; the last terminal of a
    //    priority group always ends it when a lower-priority group follows
    let mut j = 0;
    while j < sorted.len() {
        let a = sorted[j].0 .0;
        let group_end = j + 1 < sorted.len() && prio[sorted[j + 1].0 .0] != prio[a];
        assert!(sorted[j].1 == ((ms && is_str(a)) || group_end), "C06: wrong finish flag");
        j += 1;
    }
    std::mem::forget(table);
    std::mem::forget(grammar);
    std::mem::forget(settings);
}
fn sort_terminals_table(ms: bool) {
    // equal priorities: specificity / grammar order decides; recognizers: "ab", regex, "abc"
    sort_terminals_case([10, 10, 10], [2, 4, 3], [true, true, true], ms);
    // two priority groups, the higher one first in the grammar; a regex in the top group
    sort_terminals_case([15, 10, 15], [4, 1, 2], [true, true, true], ms);
    kani::cover!(true, "all cases executed");
}
#[kani::proof]
#[kani::unwind(8)]
fn sort_terminals_most_specific() {
    sort_terminals_table(true)
}
#[kani::proof]
#[kani::unwind(8)]
fn sort_terminals_plain() {
    sort_terminals_table(false)
}
/// two further configurations (thorough tier): ascending priorities with one terminal without action; equal strings
#[kani::proof]
#[kani::unwind(8)]
fn sort_terminals_more() {
    // descending grammar order is ascending priority; one terminal has no action here
    sort_terminals_case([5, 10, 20], [1, 0, 4], [true, false, true], true);
    // same string length, same priority: grammar order; a lower group follows
    sort_terminals_case([10, 10, 5], [1, 1, 4], [true, true, true], false);
    kani::cover!(true, "all cases executed");
}

// ---------------------------------------------------------------------------------------------------------------
/// C06 sort_terminals on the BLOCK LIFT of its ordering + finish-flag statements (build/gen/sort_block.rs): three real
/// `Terminal`s with SYMBOLIC priorities (every triple of values <= 99, the range the grammar language admits) and a symbolic
/// most-specific flag; the recognizer kinds are concrete per case (building a String under a symbolic branch is what made
/// the harness on the real LRTable exceed 25 minutes).  Oracle from the property text: priority descending; then, if
/// enabled, string recognizers by length before regexes; then grammar order; finish flag = (most-specific and string
/// recognizer) or last of its priority group with a lower group following.  bounded: three terminals, recognizers of
/// length <= 3.  Which terminals enter (those with actions in the state) is computed in front of the lifted range.
fn sort_block_case(rk: [u8; 3]) {
    const N: usize = 3;
    let prio: [u32; 3] = kani::any();
    kani::assume(prio[0] <= 99 && prio[1] <= 99 && prio[2] <= 99);
    let ms: bool = kani::any();
    let settings = SortSettings { lexical_disamb_most_specific: ms };
    let terms = [
        Terminal { idx: TermIndex(0), prio: prio[0], recognizer: any_recognizer(rk[0]), ..Default::default() },
        Terminal { idx: TermIndex(1), prio: prio[1], recognizer: any_recognizer(rk[1]), ..Default::default() },
        Terminal { idx: TermIndex(2), prio: prio[2], recognizer: any_recognizer(rk[2]), ..Default::default() },
    ];
    let mut v: Vec<&Terminal> = Vec::with_capacity(4);
    v.push(&terms[0]);
    v.push(&terms[1]);
    v.push(&terms[2]);
    let mut state = SortState { sorted_terminals: Vec::new() };
    SortCtx { settings: &settings }.sort_block(v, &mut state);
    let sorted = &state.sorted_terminals;
    let spec = |t: usize| -> u32 { if ms && rk[t] >= 1 && rk[t] <= 3 { rk[t] as u32 } else { 0 } };
    let is_str = |t: usize| -> bool { rk[t] >= 1 && rk[t] <= 3 };
    // 1. a permutation of the three terminals
    assert!(sorted.len() == N);
    let mut t = 0;
    while t < N {
        let mut c = 0;
        let mut j = 0;
        while j < N { if sorted[j].0 == TermIndex(t) { c += 1; } j += 1; }
        assert!(c == 1, "C06: a terminal was lost or duplicated");
        t += 1;
    }
    // 2. order: priority descending; then (if enabled) most specific first; then grammar order
    let mut j = 0;
    while j + 1 < N {
        let (a, b) = (sorted[j].0 .0, sorted[j + 1].0 .0);
        assert!(a < N && b < N);
        assert!(prio[a] > prio[b] || (prio[a] == prio[b] && (spec(a) > spec(b) || (spec(a) == spec(b) && a < b))), "C06: terminals tried in the wrong order");
        j += 1;
    }
    // 3. finish flags
    let mut j = 0;
    while j < N {
        let a = sorted[j].0 .0;
        let group_end = j + 1 < N && prio[sorted[j + 1].0 .0] != prio[a];
        assert!(sorted[j].1 == ((ms && is_str(a)) || group_end), "C06: wrong finish flag");
        j += 1;
    }
    kani::cover!(prio[0] < prio[1] && prio[1] < prio[2], "ascending priorities");
    kani::cover!(prio[0] == prio[1] && prio[1] == prio[2] && ms, "one group, most specific on");
    kani::cover!(prio[0] == prio[2] && prio[1] > prio[0] && !ms, "two groups, most specific off");
    std::mem::forget(state);
    std::mem::forget(terms);
}
/// recognizers "ab", regex, "abc"
#[kani::proof]
#[kani::unwind(8)]
fn sort_block_strings_and_regex() {
    sort_block_case([2, 4, 3]);
    kani::cover!(true, "case executed");
}
/// recognizers regex, "a", "a" (equal strings: grammar order)
#[kani::proof]
#[kani::unwind(8)]
fn sort_block_equal_strings() {
    sort_block_case([4, 1, 1]);
    kani::cover!(true, "case executed");
}
/// no recognizer (custom lexer), regex, "abc"
#[kani::proof]
#[kani::unwind(8)]
fn sort_block_no_recognizer() {
    sort_block_case([0, 4, 3]);
    kani::cover!(true, "case executed");
}

// ---------------------------------------------------------------------------------------------------------------
/// C01 "REDUCE/ACCEPT entries" -- the part of LRTable::calculate_reductions that Verus cannot take (the loops over the
/// states and over `state.items.iter().filter(|x| x.is_reducing())`, the augmented-production test with its `continue`):
/// the real function on a table with ONE state holding three items -- the completed augmented item, a completed item of
/// another production with lookahead {t1}, and an item that is not reducing.  Every reducing item must be processed: ACCEPT
/// on STOP, Reduce(X, 1) on t1, nothing for the third item, nothing on other terminals.  bounded: one concrete state
/// (the per-item placement for every follow set is proved in Verus: conflicts::reduce_block).
/// NOT REGISTERED: measured -- timed out at 1200 s although every input is concrete (Grammar/LRTable construction and the
/// filter/contains adapter chains).  Seed C01d stays missed.  Kept for the record.
#[kani::proof]
#[kani::unwind(8)]
fn calculate_reductions_all_items() {
    let mut settings_owned = base_settings(None, None);
    settings_owned.parser_algo = ParserAlgo::LR;
    let mk = |idx: usize, nt: usize, rhs: usize| Production {
        idx: ProdIndex(idx),
        nonterminal: NonTermIndex(nt),
        rhs: (0..rhs).map(|_| mk_assignment(1)).collect(),
        ..Production::default()
    };
    // production 0: AUG: S ; production 1: X: t1 ; production 2: Y: t1 t1
    let prods = vec![mk(0, 1, 1), mk(1, 2, 1), mk(2, 2, 2)];
    let terms = vec![
        Terminal { idx: TermIndex(0), ..Default::default() },
        Terminal { idx: TermIndex(1), ..Default::default() },
    ];
    // symbols: 0 = STOP, 1 = t1, 2 = EMPTY (non-terminal 0), 3 = AUG (non-terminal 1), 4 = X/Y (non-terminal 2)
    let mut grammar_owned = mk_grammar(prods, terms);
    grammar_owned.nonterminals = NonTermVec(vec![NonTerminal::default(), NonTerminal::default(), NonTerminal::default()]);
    let grammar = &grammar_owned;
    let settings = &settings_owned;
    let mut state = LRState::new(grammar, StateIndex(0), SymbolIndex(0));
    let follow = |xs: &[usize]| { let mut f = Follow::new(); for x in xs { f.insert(SymbolIndex(*x)); } RefCell::new(f) };
    state.items.push(LRItem { prod: ProdIndex(0), prod_len: 1, rn_len: None, position: 1, follow: follow(&[0]) });
    state.items.push(LRItem { prod: ProdIndex(1), prod_len: 1, rn_len: None, position: 1, follow: follow(&[1]) });
    state.items.push(LRItem { prod: ProdIndex(2), prod_len: 2, rn_len: None, position: 1, follow: follow(&[0, 1]) });
    let mut table = LRTable {
        states: StateVec(vec![state]),
        layout_state: None,
        grammar,
        settings,
        first_sets: SymbolVec::new(),
        production_rn_lengths: None,
    };
    table.calculate_reductions();
    let st = &table.states[StateIndex(0)];
    assert!(st.actions[TermIndex(0)].len() == 1 && matches!(st.actions[TermIndex(0)][0], Action::Accept), "C01: ACCEPT missing on STOP (or something else there)");
    assert!(st.actions[TermIndex(1)].len() == 1, "C01: a reducing item of the accepting state was not processed (or the non-reducing one was)");
    assert!(matches!(st.actions[TermIndex(1)][0], Action::Reduce(ProdIndex(1), 1)), "C01: wrong REDUCE entry");
    kani::cover!(true, "executed");
    std::mem::forget(table);
    std::mem::forget(grammar_owned);
    std::mem::forget(settings_owned);
}

// ---------------------------------------------------------------------------------------------------------------
/// C16: LRTable::get_conflicts never aborts, whatever unresolved cell it meets (fix 6e9f325: [Accept, Reduce]); it
/// reports one conflict per pair of actions of a cell.  bounded(one state; three concrete cells: [A,R], [S,R,R],
/// [R,R,R] -- six took more than ten minutes).
#[kani::proof]
#[kani::unwind(8)]
fn get_conflicts_total() {
    let cells: [(u8, usize); 3] = [(2, 1), (1, 2), (0, 3)]; // (0 none / 1 shift / 2 accept, #reductions)
    let mut c = 0;
    while c < 3 {
        let (first, nred) = cells[c];
        let settings = base_settings(None, None);
        let terms = vec![Terminal { idx: TermIndex(0), ..Default::default() }, Terminal { idx: TermIndex(1), ..Default::default() }];
        let grammar = mk_grammar(vec![], terms);
        let mut state = LRState::new(&grammar, StateIndex(0), SymbolIndex(0));
        let t = if first == 2 { TermIndex(0) } else { TermIndex(1) };
        if first == 1 { state.actions[t].push(Action::Shift(StateIndex(1))); }
        if first == 2 { state.actions[t].push(Action::Accept); }
        let mut r = 0;
        while r < nred {
            state.actions[t].push(Action::Reduce(ProdIndex(r + 1), 1));
            r += 1;
        }
        let n = state.actions[t].len();
        let table = LRTable {
            states: StateVec(vec![state]),
            layout_state: None,
            grammar: &grammar,
            settings: &settings,
            first_sets: SymbolVec::new(),
            production_rn_lengths: None,
        };
        let conflicts = table.get_conflicts();
        assert!(conflicts.len() == n * (n - 1) / 2, "C16: one conflict per pair of actions");
        let mut i = 0;
        while i < conflicts.len() {
            assert!(conflicts[i].follow == t);
            i += 1;
        }
        std::mem::forget(conflicts);
        std::mem::forget(table);
        std::mem::forget(grammar);
        std::mem::forget(settings);
        c += 1;
    }
    kani::cover!(true, "all cases executed");
}

// Concrete playback (./check <id> --replay): Kani's generated unit test is written to this file, which is empty otherwise.
include!("/verif/build/gen/playback_compiler_table.rs");
