// Kani harnesses for rustemo_compiler::table (cfg(kani) only; child module of `table`, so private items are in reach).
// C05 (conflict resolution rule), C02 (resolution only removes candidates), C16 (no abort), C06 (sort_terminals), C01 (LRItem).
use super::*;
use crate::grammar::verif_kani_grammar::mk_assignment;
use crate::grammar::{NonTerminal, Production};
use crate::settings::verif_kani_settings::base as base_settings;
use std::cell::RefCell;

include!("/verif/build/gen/conflict_block.rs");

fn any_assoc() -> Associativity {
    match kani::any::<u8>() {
        0 => Associativity::None,
        1 => Associativity::Left,
        _ => Associativity::Right,
    }
}

fn mk_grammar(prods: Vec<Production>, terms: Vec<Terminal>) -> Grammar {
    Grammar {
        imports: Default::default(),
        productions: ProdVec(prods),
        terminals: TermVec(terms),
        nonterminals: NonTermVec(vec![NonTerminal::default()]),
        nonterm_by_name: BTreeMap::new(),
        term_by_name: BTreeMap::new(),
        empty_index: SymbolIndex(2),
        stop_index: SymbolIndex(0),
        augmented_index: SymbolIndex(3),
        augmented_layout_index: None,
        start_index: SymbolIndex(4),
    }
}

#[derive(Clone, Copy, PartialEq, Eq)]
enum A {
    Shift,
    Accept,
    Reduce(usize, usize),
}
fn abs(a: &Action) -> A {
    match a {
        Action::Shift(_) => A::Shift,
        Action::Accept => A::Accept,
        Action::Reduce(p, l) => A::Reduce(p.0, *l),
    }
}
fn count(v: &[A], x: A) -> usize {
    let mut n = 0;
    let mut i = 0;
    while i < v.len() {
        if v[i] == x { n += 1; }
        i += 1;
    }
    n
}
/// same multiset (the property does not fix the order inside a cell)
fn same_cell(got: &[A], want: &[A]) -> bool {
    if got.len() != want.len() { return false; }
    let mut i = 0;
    while i < want.len() {
        if count(got, want[i]) != count(want, want[i]) { return false; }
        i += 1;
    }
    true
}

const NEW: usize = 3; // production index of the reduction being added

/// The documented rule (C05 statement + docs/src/grammar_language.md "Disambiguation rules"), written independently
/// of the code as a function from the cell and the scalar attributes to the expected cell.
#[allow(clippy::too_many_arguments)]
fn expected_cell(
    cell0: &[A], new_len: usize, new_prod_len: usize, prio: u32, shift_prio: u32, prod_assoc: u8, term_assoc: u8,
    prefer_shifts: bool, prefer_shifts_over_empty: bool, nops: bool, nopse: bool, empty: bool, lr: bool, red_prio: [u32; 2],
) -> Vec<A> {
    let new = A::Reduce(NEW, new_len);
    let has_shift = count(cell0, A::Shift) + count(cell0, A::Accept) > 0;
    let mut keep_shift = true;
    let mut consider_reduce = true;
    if has_shift {
        if prio > shift_prio {
            keep_shift = false; // the higher priority wins
        } else if prio < shift_prio {
            consider_reduce = false;
        } else {
            // equal priority: associativity decides, the terminal's overriding the production's
            let assoc = if term_assoc != 0 { term_assoc } else { prod_assoc };
            if assoc == 1 {
                keep_shift = false; // left / reduce keeps the reduction
            } else if assoc == 2 {
                consider_reduce = false; // right / shift keeps the shift
            } else {
                let prefer = if empty { prefer_shifts_over_empty && !nopse } else { prefer_shifts && !nops };
                if prefer { consider_reduce = false; } // otherwise both stay: reported (LR) or kept (GLR)
            }
        }
    }
    let mut out: Vec<A> = Vec::new();
    let mut reduces: Vec<(A, u32)> = Vec::new();
    let mut i = 0;
    while i < cell0.len() {
        match cell0[i] {
            A::Shift | A::Accept => { if keep_shift { out.push(cell0[i]); } }
            A::Reduce(p, _) => { reduces.push((cell0[i], red_prio[p - 1])); }
        }
        i += 1;
    }
    if !consider_reduce || reduces.is_empty() {
        let mut j = 0;
        while j < reduces.len() { out.push(reduces[j].0); j += 1; }
        if consider_reduce { out.push(new); }
        return out;
    }
    // reduce/reduce: strictly lower than all -> dropped; strictly higher than all -> replaces them
    let mut lower_than_all = true;
    let mut higher_than_all = true;
    let mut j = 0;
    while j < reduces.len() {
        if !(prio < reduces[j].1) { lower_than_all = false; }
        if !(prio > reduces[j].1) { higher_than_all = false; }
        j += 1;
    }
    if lower_than_all {
        let mut j = 0;
        while j < reduces.len() { out.push(reduces[j].0); j += 1; }
    } else if higher_than_all {
        out.push(new);
    } else if lr {
        // LR prefers non-empty reductions over empty ones
        let mut j = 0;
        while j < reduces.len() {
            if let A::Reduce(_, l) = reduces[j].0 { if l != 0 { out.push(reduces[j].0); } }
            j += 1;
        }
        if new_prod_len > 0 || out.is_empty() { out.push(new); }
    } else {
        let mut j = 0;
        while j < reduces.len() { out.push(reduces[j].0); j += 1; }
        out.push(new);
    }
    out
}

/// bounded(cell <= 3 entries: at most one Shift/Accept and at most two earlier reductions; one harness per cell shape);
/// every priority over the whole u32, both associativities over all three values, all flags, empty / non-empty
/// production, LR / GLR, the lengths of the earlier reductions: symbolic.
#[kani::proof]
#[kani::unwind(7)]
fn conflict_cell_s() { conflict_resolution_rule(true, false, 0) }
#[kani::proof]
#[kani::unwind(7)]
fn conflict_cell_a() { conflict_resolution_rule(true, true, 0) }
#[kani::proof]
#[kani::unwind(7)]
fn conflict_cell_sr() { conflict_resolution_rule(true, false, 1) }
#[kani::proof]
#[kani::unwind(7)]
fn conflict_cell_ar() { conflict_resolution_rule(true, true, 1) }
#[kani::proof]
#[kani::unwind(7)]
fn conflict_cell_r() { conflict_resolution_rule(false, false, 1) }
#[kani::proof]
#[kani::unwind(7)]
fn conflict_cell_rr() { conflict_resolution_rule(false, false, 2) }
#[kani::proof]
#[kani::unwind(7)]
fn conflict_cell_srr() { conflict_resolution_rule(true, false, 2) }

fn conflict_resolution_rule(has_shift: bool, accept: bool, nred: usize) {
    // ---- scalar attributes, all symbolic ----
    let prio: u32 = kani::any();
    let shift_prio: u32 = kani::any();
    let red_prio: [u32; 2] = [kani::any(), kani::any()];
    let prod_assoc = any_assoc();
    let term_assoc = any_assoc();
    let pa = match prod_assoc { Associativity::None => 0u8, Associativity::Left => 1, Associativity::Right => 2 };
    let ta = match term_assoc { Associativity::None => 0u8, Associativity::Left => 1, Associativity::Right => 2 };
    let nops: bool = kani::any();
    let nopse: bool = kani::any();
    let empty: bool = kani::any();
    let lr: bool = kani::any();
    let mut settings = base_settings(None, None);
    settings.prefer_shifts = kani::any();
    settings.prefer_shifts_over_empty = kani::any();
    settings.parser_algo = if lr { ParserAlgo::LR } else { ParserAlgo::GLR };

    // ---- grammar: productions 1, 2 are the reductions already in the cell, production 3 is the new one ----
    let mk = |prio: u32, assoc: Associativity, nops: bool, nopse: bool, rhs: usize, idx: usize| Production {
        idx: ProdIndex(idx),
        nonterminal: NonTermIndex(0),
        rhs: if rhs == 0 { vec![] } else { vec![mk_assignment(1)] },
        assoc, prio, nops, nopse,
        ..Production::default()
    };
    let prods = vec![
        mk(10, Associativity::None, false, false, 1, 0),
        mk(red_prio[0], Associativity::None, false, false, 1, 1),
        mk(red_prio[1], Associativity::None, false, false, 1, 2),
        mk(prio, prod_assoc, nops, nopse, if empty { 0 } else { 1 }, NEW),
    ];
    let terms = vec![
        Terminal { idx: TermIndex(0), ..Default::default() },
        Terminal { idx: TermIndex(1), assoc: term_assoc, ..Default::default() },
    ];
    let grammar = mk_grammar(prods, terms);
    let prod_len = if empty { 0 } else { 1 };
    // LR: the item reduces at its end; GLR (right-nulled): it may reduce earlier
    let position: usize = if lr { prod_len } else { kani::any() };
    kani::assume(position <= prod_len);
    let item = LRItem { prod: ProdIndex(NEW), prod_len, rn_len: if lr { None } else { Some(position) }, position, follow: RefCell::new(Follow::new()) };
    let new_reduce = Action::Reduce(ProdIndex(NEW), position);

    // ---- the cell before: [Shift|Accept]? then 0..2 reductions (by production 1 / 2, length 0 or 1), not empty ----
    let l1: usize = kani::any();
    let l2: usize = kani::any();
    kani::assume(l1 <= 1 && l2 <= 1);
    let mut cell: Vec<Action> = Vec::new();
    if has_shift { cell.push(if accept { Action::Accept } else { Action::Shift(StateIndex(7)) }); }
    if nred >= 1 { cell.push(Action::Reduce(ProdIndex(1), l1)); }
    if nred >= 2 { cell.push(Action::Reduce(ProdIndex(2), l2)); }
    let mut cell0: Vec<A> = Vec::new();
    let mut i = 0;
    while i < cell.len() { cell0.push(abs(&cell[i])); i += 1; }

    let mut state = LRState::new(&grammar, StateIndex(0), SymbolIndex(0));
    if has_shift && !accept {
        // group_per_next_symbol records a priority for every terminal that has a Shift in the state
        state.max_prior_for_term.insert(TermIndex(1), shift_prio);
    }
    let eff_shift_prio = if accept { DEFAULT_PRIORITY } else { shift_prio };

    // ---- run the real statements ----
    let ctx = LiftCtx { settings: &settings, grammar: &grammar };
    ctx.conflict_block(&state, &item, &grammar.productions[ProdIndex(NEW)], &grammar.terminals[TermIndex(1)], &mut cell, new_reduce);

    // ---- compare with the documented rule ----
    let mut got: Vec<A> = Vec::new();
    let mut i = 0;
    while i < cell.len() { got.push(abs(&cell[i])); i += 1; }
    let want = expected_cell(&cell0, position, prod_len, prio, eff_shift_prio, pa, ta, settings.prefer_shifts,
                             settings.prefer_shifts_over_empty, nops, nopse, empty, lr, red_prio);
    assert!(same_cell(&got, &want), "C05: cell after resolution differs from the documented rule");
    // C02: resolution only removes candidates (or adds the reduction under consideration)
    let mut i = 0;
    while i < got.len() {
        assert!(got[i] == A::Reduce(NEW, position) || count(&cell0, got[i]) > 0, "C02: an action appeared from nowhere");
        i += 1;
    }
    kani::cover!(!has_shift || (prio == eff_shift_prio && ta == 1 && pa == 2), "terminal left overrides production right");
    kani::cover!(!has_shift || prio > eff_shift_prio, "higher-priority reduce meets a shift");
    kani::cover!(nred == 0 || (lr && empty), "LR empty reduction meets earlier reductions");
    kani::cover!(got.len() == cell0.len() + 1, "nothing resolved: everything kept");
}

/// C01: LRItem predicates.  complete (loop-free, all usize values).
#[kani::proof]
fn lr_item_predicates() {
    let prod: usize = kani::any();
    let prod_len: usize = kani::any();
    let position: usize = kani::any();
    let rn: Option<usize> = if kani::any() { Some(kani::any()) } else { None };
    let item = LRItem { prod: ProdIndex(prod), prod_len, rn_len: rn, position, follow: RefCell::new(Follow::new()) };
    assert!(item.is_kernel() == (position > 0 || prod == 0));
    // without right-nulled lengths (LR tables) an item reduces exactly at the end of its production
    if rn.is_none() {
        assert!(item.is_reducing() == (position == prod_len));
    } else {
        assert!(item.is_reducing() == (position == prod_len || position >= rn.unwrap()));
    }
    if position < prod_len {
        let next = item.inc_position();
        assert!(next.position == position + 1 && next.position <= next.prod_len);
        assert!(next.prod == ProdIndex(prod) && next.prod_len == prod_len && next.rn_len == rn);
        assert!(next.is_kernel());
    }
}

#[kani::proof]
#[kani::unwind(7)]
fn probe_setup_only() {
    let prio: u32 = kani::any();
    let mk = |prio: u32, rhs: usize, idx: usize| Production {
        idx: ProdIndex(idx), nonterminal: NonTermIndex(0),
        rhs: if rhs == 0 { vec![] } else { vec![mk_assignment(1)] },
        prio, ..Production::default()
    };
    let prods = vec![mk(10, 1, 0), mk(prio, 1, 1)];
    let terms = vec![Terminal { idx: TermIndex(0), ..Default::default() }, Terminal { idx: TermIndex(1), ..Default::default() }];
    let grammar = mk_grammar(prods, terms);
    let mut state = LRState::new(&grammar, StateIndex(0), SymbolIndex(0));
    state.max_prior_for_term.insert(TermIndex(1), prio);
    assert!(state.max_prior_for_term[&TermIndex(1)] == prio);
    assert!(grammar.productions[ProdIndex(1)].prio == prio);
    std::mem::forget(state);
    std::mem::forget(grammar);
}
#[kani::proof]
#[kani::unwind(7)]
fn probe_vec_ops() {
    let mut cell: Vec<Action> = vec![Action::Shift(StateIndex(7))];
    let (shifts, reduces): (Vec<_>, Vec<_>) = cell.clone().into_iter().partition(|x| matches!(x, Action::Shift(_) | Action::Accept));
    assert!(shifts.len() == 1 && reduces.is_empty());
    if kani::any() { cell.retain(|x| !matches!(x, Action::Shift(_) | Action::Accept)); assert!(cell.is_empty()); }
}
