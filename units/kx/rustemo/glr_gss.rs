// Kani harnesses (cfg(kani) only); pulled in by a #[path] hook in /repo.

// Concrete playback (./check <id> --replay): Kani's generated unit test is written to this file, which is empty otherwise.
include!("/verif/build/gen/playback_rustemo_glr_gss.rs");

// ---------------------------------------------------------------------------------------------------------------
// C03 "enumerating the forest (by index or by iteration) yields each derivation tree exactly once": the weighted
// (mixed-radix) index decoding of Tree::children and the solution counting of SPPFTree/Parent/Forest, on the REAL
// functions (sum/product/enumerate adapter chains, outside Verus).  The SPPF below is a harness INPUT: a non-terminal
// node with two children, the first with NA alternatives, the second with NB, every alternative a terminal leaf with
// its own token kind.  The tree index is symbolic over the whole range [0, NA*NB] (one past the end included).
use super::*;
use crate::position::Position as KPos;

type KTree<'i> = SPPFTree<'i, [u8], u8, u8>;

fn k_span() -> SourceSpan {
    SourceSpan { start: KPos { pos: 0, line_col: None }, end: KPos { pos: 0, line_col: None } }
}
fn k_leaf<'i>(input: &'i [u8], kind: u8) -> Rc<KTree<'i>> {
    Rc::new(SPPFTree::Term { token: Token { kind, value: &input[0..0], span: k_span() }, data: TreeData { span: k_span(), layout: None } })
}
fn k_kind(t: &Tree<'_, [u8], u8, u8>) -> u8 {
    match &*t.root {
        SPPFTree::Term { token, .. } => token.kind,
        _ => 255,
    }
}

/// bounded(one ambiguous node, 2 x 2 alternatives); idx symbolic in [0, 4).
/// NOT REGISTERED: measured -- timed out at 1500 s (2 x 3 alternatives, through Forest) and at 1200 s (this reduced form):
/// Rc<RefCell<VecDeque<Rc<..>>>> walked by map/enumerate/product adapter chains is beyond CBMC here.  Kept for the record.
#[kani::proof]
#[kani::unwind(6)]
fn sppf_children_mixed_radix() {
    const NA: usize = 2;
    const NB: usize = 2;
    let input: [u8; 1] = [0];
    let mut a = Vec::with_capacity(2);
    a.push(k_leaf(&input, 10));
    a.push(k_leaf(&input, 11));
    let mut b = Vec::with_capacity(2);
    b.push(k_leaf(&input, 20));
    b.push(k_leaf(&input, 21));
    let pa = Rc::new(Parent::new(NodeIndex::new(0), NodeIndex::new(1), a));
    let pb = Rc::new(Parent::new(NodeIndex::new(1), NodeIndex::new(2), b));
    let mut kids = VecDeque::with_capacity(2);
    kids.push_back(pa);
    kids.push_back(pb);
    let root: Rc<KTree> = Rc::new(SPPFTree::NonTerm { prod: 7u8, data: TreeData { span: k_span(), layout: None }, children: RefCell::new(kids) });
    // "the number of solutions it reports equals the number of distinct derivation trees"
    assert!(root.solutions() == NA * NB);
    let idx: usize = kani::any();
    kani::assume(idx < NA * NB);
    let tree = Tree::new(Rc::clone(&root), idx);
    let ch = tree.children();
    assert!(ch.len() == 2);
    // the decoding is the mixed-radix representation of idx: (idx / NB, idx % NB) -- a bijection between [0, NA*NB) and
    // the pairs of alternatives, so every combination is enumerated exactly once
    assert!(k_kind(&ch[0]) == 10 + (idx / NB) as u8, "C03: first child is not alternative idx / NB");
    assert!(k_kind(&ch[1]) == 20 + (idx % NB) as u8, "C03: second child is not alternative idx % NB");
    kani::cover!(idx == NA * NB - 1, "last tree");
    kani::cover!(idx == 0, "first tree");
    std::mem::forget(ch);
    std::mem::forget(tree);
    std::mem::forget(root);
}
