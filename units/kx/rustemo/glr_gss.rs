// Kani harnesses (cfg(kani) only); pulled in by a #[path] hook in /repo.

// Concrete playback (./check <id> --replay): Kani's generated unit test is written to this file, which is empty otherwise.
include!("/verif/build/gen/playback_rustemo_glr_gss.rs");
