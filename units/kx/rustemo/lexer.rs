// Kani harnesses for rustemo::lexer (cfg(kani) only; child module, so StringLexer::skip and TokenIterator are in reach).
use super::*;
use crate::lr::context::LRContext;
use crate::position::LineColumn;

#[derive(Debug, Default, Clone, Copy, PartialEq, Eq)]
struct St(u8);
impl State for St {
    fn default_layout() -> Option<Self> {
        None
    }
}
struct Rec;
impl<'i> TokenRecognizer<'i> for Rec {}
type Ctx<'i> = LRContext<'i, str, St, u8>;

/// log!() consults RUSTEMO_TRACE through std::env::var_os in debug builds (a foreign call): stubbed, tracing off.
fn stub_var_os<K: AsRef<std::ffi::OsStr>>(_key: K) -> Option<std::ffi::OsString> {
    None
}

/// C14/C15: StringLexer::skip skips exactly the maximal whitespace prefix at the current position, stores it as the
/// layout (None if empty), advances the position by its BYTE length, and never slices inside a character.
/// bounded(N bytes of arbitrary valid UTF-8, so multi-byte whitespace such as U+00A0 / U+2003 is included; start at any
/// char boundary).
fn skip_harness<const N: usize>() {
    let buf: [u8; N] = kani::any();
    let len: usize = kani::any();
    kani::assume(len <= N);
    let s = std::str::from_utf8(&buf[..len]);
    kani::assume(s.is_ok());
    let s = s.unwrap();
    let start: usize = kani::any();
    kani::assume(start <= len && s.is_char_boundary(start));
    let line: usize = kani::any();
    let column: usize = kani::any();
    kani::assume(line < usize::MAX - N && column < usize::MAX - N);
    let mut ctx: Ctx = LRContext::new(Position { pos: start, line_col: Some(LineColumn { line, column }) });
    // stale layout from an earlier token must not survive
    if kani::any() { ctx.set_layout_ahead(Some(&s[0..0])); }

    StringLexer::<Ctx, St, u8, Rec, 1>::skip(s, &mut ctx);

    // independent oracle: byte length of the maximal whitespace prefix of s[start..]
    let mut ws = 0usize;
    let mut done = false;
    for c in s[start..].chars() {
        if !done && c.is_whitespace() { ws += c.len_utf8(); } else { done = true; }
    }
    assert!(ctx.position().pos == start + ws, "C14: position not advanced by the byte length of the skipped layout");
    match ctx.layout_ahead() {
        Some(l) => {
            assert!(ws > 0 && l.len() == ws, "C14: stored layout is not the skipped whitespace");
            assert!(l.as_ptr() == s[start..].as_ptr());
        }
        None => assert!(ws == 0, "C14: whitespace was skipped but no layout stored"),
    }
    kani::cover!(ws == 3, "three bytes of whitespace (e.g. U+2003, or NBSP + space)");
    kani::cover!(ws == 2 && len == N, "two bytes of whitespace followed by something");
}
#[kani::proof]
#[kani::unwind(10)]
#[kani::stub(std::env::var_os, stub_var_os)]
fn lexer_skip_4() {
    skip_harness::<4>()
}
#[kani::proof]
#[kani::unwind(12)]
#[kani::stub(std::env::var_os, stub_var_os)]
fn lexer_skip_5() {
    skip_harness::<5>()
}

// ---------------------------------------------------------------------------------------------------------------
/// C06 "highest terminal priority among the matching ones" / docs/src/lexers.md "A first match in a priority group will
/// reduce further matches only to that group": the real TokenIterator (new + Iterator::next) over three table entries
/// with SYMBOLIC match results and SYMBOLIC finish flags (all 64 combinations).  Oracle from the documented meaning of
/// the flag (LRState::sorted_terminals: "if we already have terminals that matched at this location no further
/// terminals should be tried"): entries are tried in order; after a flagged entry the search ends if anything has
/// matched so far.  bounded(three entries).  Twin of lexer::TokenIterator::next_body (Verus).
struct BitRec(bool);
impl<'i> TokenRecognizer<'i> for BitRec {
    fn recognize(&self, input: &'i str) -> Option<&'i str> {
        if self.0 { Some(&input[0..1]) } else { None }
    }
}
static REC_YES: BitRec = BitRec(true);
static REC_NO: BitRec = BitRec(false);

#[kani::proof]
#[kani::unwind(6)]
fn token_iterator_cuts() {
    let m: [bool; 3] = kani::any();
    let f: [bool; 3] = kani::any();
    let pick = |b: bool| -> &'static BitRec { if b { &REC_YES } else { &REC_NO } };
    let mut recs: Vec<(&'static BitRec, u8, bool)> = Vec::with_capacity(3);
    recs.push((pick(m[0]), 0u8, f[0]));
    recs.push((pick(m[1]), 1u8, f[1]));
    recs.push((pick(m[2]), 2u8, f[2]));
    let mut it = TokenIterator::new("ab", Position { pos: 0, line_col: None }, recs);
    // what the documentation prescribes
    let mut expect = [false; 3];
    let mut any = false;
    let mut cut = false;
    let mut k = 0;
    while k < 3 {
        if !cut {
            if m[k] { expect[k] = true; any = true; }
            if f[k] && any { cut = true; }
        }
        k += 1;
    }
    // what the iterator yields
    let mut got = [false; 3];
    let mut last: i32 = -1;
    let mut n = 0;
    while n < 4 {
        match it.next() {
            Some(t) => {
                assert!((t.kind as i32) > last, "C06: tokens are not produced in table order");
                last = t.kind as i32;
                got[t.kind as usize] = true;
            }
            None => break,
        }
        n += 1;
    }
    assert!(got[0] == expect[0] && got[1] == expect[1] && got[2] == expect[2],
            "C06: a recognizer beyond the end of a priority group that already matched was tried (or one before it was skipped)");
    assert!(it.next().is_none());
    kani::cover!(m[0] && !m[1] && f[1] && m[2], "first of a group matches, the flagged last one does not, a lower group would match");
    kani::cover!(!m[0] && !m[1] && m[2], "only the last matches");
    std::mem::forget(it);
}

// Concrete playback (./check <id> --replay): Kani's generated unit test is written to this file, which is empty otherwise.
include!("/verif/build/gen/playback_rustemo_lexer.rs");
