// Kani harnesses for rustemo's public runtime helpers (input.rs, position.rs, error.rs).
// Pulled in by the cfg(kani) hook at the end of rustemo/src/lib.rs; nothing here is copied from /repo.
use crate::input::Input;
use crate::position::{LineColumn, Position, SourceSpan};

/// A symbolic &str of at most N bytes (any valid UTF-8).
fn any_str<const N: usize>(buf: &[u8; N]) -> &str {
    let len: usize = kani::any();
    kani::assume(len <= N);
    let s = std::str::from_utf8(&buf[..len]);
    kani::assume(s.is_ok());
    s.unwrap()
}

/// C13: "Line numbers equal one plus the number of newlines before the offset and columns the distance
/// in bytes from the line start" -- i.e. if (line, column) is right for a prefix p, position_after(s)
/// is right for p.s; and pos advances by exactly |s|.
/// bounded(N bytes of arbitrary UTF-8; start position fully symbolic up to overflow headroom).
#[kani::proof]
#[kani::unwind(6)]
fn str_position_after_4() {
    str_position_after::<4>()
}
#[kani::proof]
#[kani::unwind(8)]
fn str_position_after_6() {
    str_position_after::<6>()
}
fn str_position_after<const N: usize>() {
    let buf: [u8; N] = kani::any();
    let s = any_str(&buf);
    let pos: usize = kani::any();
    let line: usize = kani::any();
    let column: usize = kani::any();
    kani::assume(pos <= usize::MAX - N && line <= usize::MAX - N && column <= usize::MAX - N);
    let with_lc: bool = kani::any();
    let start = Position { pos, line_col: if with_lc { Some(LineColumn { line, column }) } else { None } };

    let after = s.position_after(start);

    // independent oracle: walk the bytes
    let mut l = line;
    let mut c = column;
    let mut i = 0;
    while i < s.len() {
        if s.as_bytes()[i] == b'\n' { l += 1; c = 0; } else { c += 1; }
        i += 1;
    }
    assert!(after.pos == pos + s.len());
    if with_lc {
        assert!(after.line_col == Some(LineColumn { line: l, column: c }));
    } else {
        assert!(after.line_col.is_none());
    }
    kani::cover!(with_lc && l > line && c > 0, "newline followed by text");
    kani::cover!(with_lc && l == line && s.len() > 0, "no newline");
    kani::cover!(s.len() == N, "full length");

    // span_from is [position, position_after(position)]
    let span = s.span_from(start);
    assert!(span.start == start && span.end == after);
}

/// [u8] inputs: position advances by the length, no line/column.
#[kani::proof]
#[kani::unwind(8)]
fn bytes_position_after() {
    const N: usize = 6;
    let buf: [u8; N] = kani::any();
    let len: usize = kani::any();
    kani::assume(len <= N);
    let s = &buf[..len];
    let pos: usize = kani::any();
    kani::assume(pos <= usize::MAX - N);
    let start = Position { pos, line_col: None };
    let after = s.position_after(start);
    assert!(after.pos == pos + len && after.line_col.is_none());
    let span = s.span_from(start);
    assert!(span.start == start && span.end == after);
}

/// position.rs conversions (C12/C13): complete (loop-free, all scalar inputs).
#[kani::proof]
fn position_conversions() {
    let p = Position {
        pos: kani::any(),
        line_col: if kani::any() { Some(LineColumn { line: kani::any(), column: kani::any() }) } else { None },
    };
    let q = Position {
        pos: kani::any(),
        line_col: if kani::any() { Some(LineColumn { line: kani::any(), column: kani::any() }) } else { None },
    };
    let sp: SourceSpan = p.into();
    assert!(sp.start == p && sp.end == p);
    let sp2 = SourceSpan { start: p, end: q };
    let r: std::ops::Range<usize> = sp2.into();
    assert!(r.start == p.pos && r.end == q.pos);
    let back: Position = sp2.into();
    assert!(back == p);
    let m = sp.merge(sp2);
    assert!(m.start == p && m.end == q);
    let t: SourceSpan = (p.pos, q.pos).into();
    assert!(t.start.pos == p.pos && t.end.pos == q.pos && t.start.line_col.is_none() && t.end.line_col.is_none());
    let n = SourceSpan::new(p, q);
    assert!(n.start == p && n.end == q);
    assert!(<str as Input>::start_position() == Position { pos: 0, line_col: Some(LineColumn { line: 1, column: 0 }) });
    assert!(<[u8] as Input>::start_position() == Position { pos: 0, line_col: None });
}


// ---------------------------------------------------------------------------------------------------------------
// Twins of the Verus obligations on TreeBuilder / SliceBuilder (lr/builder.rs): bounded(<= 3 nodes), through the
// public API only.
use crate::lexer::Token;
use crate::lr::builder::{LRBuilder, SliceBuilder, TreeBuilder, TreeNode};
use crate::lr::context::LRContext;
use crate::{Builder, Context, State};

#[derive(Debug, Default, Clone, Copy, PartialEq, Eq)]
struct St(u8);
impl State for St {
    fn default_layout() -> Option<Self> {
        None
    }
}
fn any_pos() -> Position {
    Position { pos: kani::any(), line_col: if kani::any() { Some(LineColumn { line: kani::any(), column: kani::any() }) } else { None } }
}
fn any_span() -> SourceSpan {
    SourceSpan { start: any_pos(), end: any_pos() }
}
type Ctx<'i> = LRContext<'i, [u8], St, u8>;
type TB<'i> = TreeBuilder<'i, [u8], u8, u8>;

fn kind_of(n: &TreeNode<'_, [u8], u8, u8>) -> u8 {
    match n {
        TreeNode::TermNode { token, .. } => token.kind,
        TreeNode::NonTermNode { prod, .. } => 100 + *prod,
    }
}

/// shift k leaves (1..=3), reduce the top m of them (0..=k) by production 7, then get_result.
/// (k, m) enumerated concretely -- a symbolic split point made CBMC exceed the memory cap; spans and layouts symbolic.
#[kani::proof]
#[kani::unwind(6)]
fn twin_tree_builder() {
    let mut k = 1;
    while k <= 3 {
        let mut m = 0;
        while m <= k {
            tree_builder_case(k, m);
            m += 1;
        }
        k += 1;
    }
    // reached only if no enumeration loop was cut short by the unwinding bound
    kani::cover!(true, "all cases executed");
}
fn tree_builder_case(k: usize, m: usize) {
    let input: [u8; 4] = [1, 2, 3, 4];
    let layouts: [Option<&[u8]>; 3] = [
        if kani::any() { Some(&input[0..1]) } else { None },
        if kani::any() { Some(&input[1..2]) } else { None },
        if kani::any() { Some(&input[2..3]) } else { None },
    ];
    let mut ctx: Ctx = LRContext::new(any_pos());
    let mut b: TB = TreeBuilder::new();
    let mut i = 0;
    while i < k {
        ctx.set_layout_ahead(layouts[i]);
        LRBuilder::<[u8], Ctx, St, u8, u8>::shift_action(&mut b, &ctx, Token { kind: i as u8 + 1, value: &input[i..i + 1], span: any_span() });
        i += 1;
    }
    let sp = any_span();
    ctx.set_span(sp);
    ctx.set_layout_ahead(None);
    LRBuilder::<[u8], Ctx, St, u8, u8>::reduce_action(&mut b, &ctx, 7, m);
    // C02: get_result hands over the top of the result stack -- the node just built
    let top = b.get_result();
    match &top {
        TreeNode::NonTermNode { prod, span, children, layout } => {
            assert!(*prod == 7 && *span == sp);
            assert!(children.len() == m);
            let mut j = 0;
            while j < m {
                // children are the popped suffix, in order
                assert!(kind_of(&children[j]) == (k - m + j) as u8 + 1);
                j += 1;
            }
            // C14: the node inherits the layout of its first child; none for an empty production
            let want = if m > 0 { layouts[k - m] } else { None };
            assert!(layout.map(|l| l[0]) == want.map(|l| l[0]) && layout.is_some() == want.is_some());
        }
        TreeNode::TermNode { .. } => panic!("C02: get_result did not return the node built by the last reduction"),
    }
    // whatever was below stays below, untouched: the next result is leaf k-m (if any)
    if k - m > 0 {
        let below = b.get_result();
        assert!(kind_of(&below) == (k - m) as u8);
        match &below {
            TreeNode::TermNode { layout, .. } => assert!(layout.is_some() == layouts[k - m - 1].is_some()),
            _ => panic!("C02: a leaf was replaced"),
        }
        std::mem::forget(below);
    }
    // TreeNode is recursive (Vec<TreeNode>): its drop glue unrolled to the unwind bound cost CBMC > 50 GB.  Leak.
    std::mem::forget(top);
    std::mem::forget(b);
}

/// C14: SliceBuilder (layout parser) -- reduce_action stores input[span], get_result returns it.
#[kani::proof]
#[kani::unwind(6)]
fn twin_slice_builder() {
    let input: [u8; 4] = kani::any();
    let a: usize = kani::any();
    let z: usize = kani::any();
    kani::assume(a <= z && z <= 4);
    let mut ctx: Ctx = LRContext::new(any_pos());
    let mut b: SliceBuilder<[u8]> = SliceBuilder::new(&input[..]);
    assert!(b.get_result().is_none());
    let mut sp = any_span();
    sp.start.pos = a;
    sp.end.pos = z;
    ctx.set_span(sp);
    LRBuilder::<[u8], Ctx, St, u8, u8>::shift_action(&mut b, &ctx, Token { kind: 1, value: &input[0..0], span: any_span() });
    assert!(b.get_result().is_none());
    LRBuilder::<[u8], Ctx, St, u8, u8>::reduce_action(&mut b, &ctx, 3, 1);
    let r = b.get_result().unwrap();
    assert!(r.len() == z - a);
    if z > a {
        assert!(r[0] == input[a] && r[z - a - 1] == input[z - 1]);
    }
}


// ---------------------------------------------------------------------------------------------------------------
/// C15: <str as Input>::slice never panics for the ranges Token's Debug impl uses (start < len, start <= end <= len),
/// whatever the UTF-8 content -- in particular when `start` falls inside a multi-byte character (fix d32cbd9).
/// bounded(N bytes of arbitrary valid UTF-8).
fn str_slice_harness<const N: usize>() {
    let buf: [u8; N] = kani::any();
    let len: usize = kani::any();
    kani::assume(len <= N);
    let s = std::str::from_utf8(&buf[..len]);
    kani::assume(s.is_ok());
    let s = s.unwrap();
    let a: usize = kani::any();
    let z: usize = kani::any();
    kani::assume(a < len && a <= z && z <= len);
    let r = Input::slice(s, a..z);
    // the result starts at the character that contains byte `a` and is a sub-slice of s
    let mut floor = a;
    while !s.is_char_boundary(floor) { floor -= 1; }
    assert!(r.as_ptr() == s[floor..].as_ptr());
    assert!(r.len() <= len - floor);
    kani::cover!(floor < a, "start inside a multi-byte character");
    kani::cover!(len == N && z == len, "up to the end");
}
#[kani::proof]
#[kani::unwind(8)]
fn str_slice_no_panic_4() {
    str_slice_harness::<4>()
}
#[kani::proof]
#[kani::unwind(10)]
fn str_slice_no_panic_6() {
    str_slice_harness::<6>()
}

// Concrete playback (./check <id> --replay): Kani's generated unit test is written to this file, which is empty otherwise.
include!("/verif/build/gen/playback_rustemo_lib.rs");
