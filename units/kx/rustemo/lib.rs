// Kani harnesses for rustemo's public runtime helpers (input.rs, position.rs, error.rs).
// Pulled in by the cfg(kani) hook at the end of rustemo/src/lib.rs; nothing here is copied from /repo.
use crate::input::Input;
use crate::position::{LineColumn, Position, SourceSpan};

/// A symbolic &str of at most N bytes (any valid UTF-8).
fn any_str<const N: usize>(buf: &[u8; N]) -> &str {
    let len: usize = kani::any();
    kani::assume(len <= N);
    let s = std::str::from_utf8(&buf[..len]);
    kani::assume(s.is_ok());
    s.unwrap()
}

/// C13: "Line numbers equal one plus the number of newlines before the offset and columns the distance
/// in bytes from the line start" -- i.e. if (line, column) is right for a prefix p, position_after(s)
/// is right for p.s; and pos advances by exactly |s|.
/// bounded(N bytes of arbitrary UTF-8; start position fully symbolic up to overflow headroom).
#[kani::proof]
#[kani::unwind(6)]
fn str_position_after_4() {
    str_position_after::<4>()
}
#[kani::proof]
#[kani::unwind(8)]
fn str_position_after_6() {
    str_position_after::<6>()
}
fn str_position_after<const N: usize>() {
    let buf: [u8; N] = kani::any();
    let s = any_str(&buf);
    let pos: usize = kani::any();
    let line: usize = kani::any();
    let column: usize = kani::any();
    kani::assume(pos <= usize::MAX - N && line <= usize::MAX - N && column <= usize::MAX - N);
    let with_lc: bool = kani::any();
    let start = Position { pos, line_col: if with_lc { Some(LineColumn { line, column }) } else { None } };

    let after = s.position_after(start);

    // independent oracle: walk the bytes
    let mut l = line;
    let mut c = column;
    let mut i = 0;
    while i < s.len() {
        if s.as_bytes()[i] == b'\n' { l += 1; c = 0; } else { c += 1; }
        i += 1;
    }
    assert!(after.pos == pos + s.len());
    if with_lc {
        assert!(after.line_col == Some(LineColumn { line: l, column: c }));
    } else {
        assert!(after.line_col.is_none());
    }
    kani::cover!(with_lc && l > line && c > 0, "newline followed by text");
    kani::cover!(with_lc && l == line && s.len() > 0, "no newline");
    kani::cover!(s.len() == N, "full length");

    // span_from is [position, position_after(position)]
    let span = s.span_from(start);
    assert!(span.start == start && span.end == after);
}

/// [u8] inputs: position advances by the length, no line/column.
#[kani::proof]
#[kani::unwind(8)]
fn bytes_position_after() {
    const N: usize = 6;
    let buf: [u8; N] = kani::any();
    let len: usize = kani::any();
    kani::assume(len <= N);
    let s = &buf[..len];
    let pos: usize = kani::any();
    kani::assume(pos <= usize::MAX - N);
    let start = Position { pos, line_col: None };
    let after = s.position_after(start);
    assert!(after.pos == pos + len && after.line_col.is_none());
    let span = s.span_from(start);
    assert!(span.start == start && span.end == after);
}

/// position.rs conversions (C12/C13): complete (loop-free, all scalar inputs).
#[kani::proof]
fn position_conversions() {
    let p = Position {
        pos: kani::any(),
        line_col: if kani::any() { Some(LineColumn { line: kani::any(), column: kani::any() }) } else { None },
    };
    let q = Position {
        pos: kani::any(),
        line_col: if kani::any() { Some(LineColumn { line: kani::any(), column: kani::any() }) } else { None },
    };
    let sp: SourceSpan = p.into();
    assert!(sp.start == p && sp.end == p);
    let sp2 = SourceSpan { start: p, end: q };
    let r: std::ops::Range<usize> = sp2.into();
    assert!(r.start == p.pos && r.end == q.pos);
    let back: Position = sp2.into();
    assert!(back == p);
    let m = sp.merge(sp2);
    assert!(m.start == p && m.end == q);
    let t: SourceSpan = (p.pos, q.pos).into();
    assert!(t.start.pos == p.pos && t.end.pos == q.pos && t.start.line_col.is_none() && t.end.line_col.is_none());
    let n = SourceSpan::new(p, q);
    assert!(n.start == p && n.end == q);
    assert!(<str as Input>::start_position() == Position { pos: 0, line_col: Some(LineColumn { line: 1, column: 0 }) });
    assert!(<[u8] as Input>::start_position() == Position { pos: 0, line_col: None });
}
