// Kani harnesses for rustemo::lr::parser (cfg(kani) only; child module, so ParseStack and LRParser::next_token are in reach).
// Twins of the Verus obligations on ParseStack (counterexamples + fallback when an edit leaves Verus's subset),
// and the token-selection logic of LRParser::next_token (C06 longest match, C02 partial-parse STOP).
use super::*;
use crate::lr::context::LRContext;
use crate::position::{LineColumn, Position};

#[derive(Debug, Default, Clone, Copy, PartialEq, Eq)]
pub(crate) struct St(pub u8);
impl State for St {
    fn default_layout() -> Option<Self> {
        None
    }
}
#[derive(Debug, Default, Clone, Copy, PartialEq, Eq)]
pub(crate) struct Tk(pub u8);

pub(crate) fn any_pos() -> Position {
    Position { pos: kani::any(), line_col: if kani::any() { Some(LineColumn { line: kani::any(), column: kani::any() }) } else { None } }
}
pub(crate) fn any_span() -> SourceSpan {
    SourceSpan { start: any_pos(), end: any_pos() }
}
type Ctx<'i> = LRContext<'i, [u8], St, Tk>;

/// Twin of lr_stack::ParseStack::{new,push_state,pop_states,state}: bounded(stack depth <= 4), spans/states symbolic.
#[kani::proof]
#[kani::unwind(7)]
fn twin_parse_stack() {
    let mut ctx: Ctx = LRContext::new(any_pos());
    let s0 = any_span();
    ctx.set_span(s0);
    let mut stack: ParseStack<St, [u8], Ctx, Tk> = ParseStack::new(&mut ctx, St(0));
    assert!(stack.stack.len() == 1 && stack.stack[0].span == s0 && stack.state() == St(0));
    let n: usize = kani::any();
    kani::assume(n <= 3);
    let spans = [any_span(), any_span(), any_span()];
    let mut i = 0;
    while i < n {
        ctx.set_span(spans[i]);
        stack.push_state(&mut ctx, St(i as u8 + 1));
        assert!(ctx.state() == St(i as u8 + 1));
        i += 1;
    }
    assert!(stack.stack.len() == n + 1);
    let last = any_span();
    let pos = any_pos();
    ctx.set_span(last);
    ctx.set_position(pos);
    let k: usize = kani::any();
    kani::assume(k <= n);
    let (state, span) = stack.pop_states(&mut ctx, k);
    // C02: pops exactly k entries, returns the state now on top
    assert!(stack.stack.len() == n + 1 - k);
    assert!(state == St((n - k) as u8) && stack.state() == state);
    if k > 0 {
        // C13: first popped start .. last popped end
        assert!(span.start == spans[n - k].start && span.end == spans[n - 1].end);
    } else {
        // C13: EMPTY: zero width, at the end of the last shifted token or at the lookahead position
        assert!(span.start == span.end);
        assert!(span.start == last.end || (last.end.pos <= pos.pos && span.start == pos));
    }
    assert!(ctx.span() == last && ctx.position() == pos);
    kani::cover!(k == 0 && n == 3, "empty reduction on a deep stack");
    kani::cover!(k == 3, "pop three");
}
