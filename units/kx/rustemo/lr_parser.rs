// Kani harnesses for rustemo::lr::parser (cfg(kani) only; child module, so ParseStack and LRParser::next_token are in reach).
// Twins of the Verus obligations on ParseStack (counterexamples + fallback when an edit leaves Verus's subset),
// and the token-selection logic of LRParser::next_token (C06 longest match, C02 partial-parse STOP).
use super::*;
use crate::lr::context::LRContext;
use crate::position::{LineColumn, Position};

#[derive(Debug, Default, Clone, Copy, PartialEq, Eq)]
pub(crate) struct St(pub u8);
impl State for St {
    fn default_layout() -> Option<Self> {
        None
    }
}
#[derive(Debug, Default, Clone, Copy, PartialEq, Eq)]
pub(crate) struct Tk(pub u8);

pub(crate) fn any_pos() -> Position {
    Position { pos: kani::any(), line_col: if kani::any() { Some(LineColumn { line: kani::any(), column: kani::any() }) } else { None } }
}
pub(crate) fn any_span() -> SourceSpan {
    SourceSpan { start: any_pos(), end: any_pos() }
}
type Ctx<'i> = LRContext<'i, [u8], St, Tk>;

/// Twin of lr_stack::ParseStack::{new,push_state,pop_states,state}: bounded(stack depth <= 4), spans/states symbolic.
#[kani::proof]
#[kani::unwind(7)]
fn twin_parse_stack() {
    let mut ctx: Ctx = LRContext::new(any_pos());
    let s0 = any_span();
    ctx.set_span(s0);
    let mut stack: ParseStack<St, [u8], Ctx, Tk> = ParseStack::new(&mut ctx, St(0));
    assert!(stack.stack.len() == 1 && stack.stack[0].span == s0 && stack.state() == St(0));
    let n: usize = kani::any();
    kani::assume(n <= 3);
    let spans = [any_span(), any_span(), any_span()];
    let mut i = 0;
    while i < n {
        ctx.set_span(spans[i]);
        stack.push_state(&mut ctx, St(i as u8 + 1));
        assert!(ctx.state() == St(i as u8 + 1));
        i += 1;
    }
    assert!(stack.stack.len() == n + 1);
    let last = any_span();
    let pos = any_pos();
    ctx.set_span(last);
    ctx.set_position(pos);
    let k: usize = kani::any();
    kani::assume(k <= n);
    let (state, span) = stack.pop_states(&mut ctx, k);
    // C02: pops exactly k entries, returns the state now on top
    assert!(stack.stack.len() == n + 1 - k);
    assert!(state == St((n - k) as u8) && stack.state() == state);
    if k > 0 {
        // C13: first popped start .. last popped end
        assert!(span.start == spans[n - k].start && span.end == spans[n - 1].end);
    } else {
        // C13: EMPTY: zero width, at the end of the last shifted token or at the lookahead position
        assert!(span.start == span.end);
        assert!(span.start == last.end || (last.end.pos <= pos.pos && span.start == pos));
    }
    assert!(ctx.span() == last && ctx.position() == pos);
    kani::cover!(k == 0 && n == 3, "empty reduction on a deep stack");
    kani::cover!(k == 3, "pop three");
}

// ---------------------------------------------------------------------------------------------------------------
// LRParser::next_token: token selection (C06 "then (if enabled) the longest match; then grammar order (always for
// LR)") and the synthetic STOP of partial parsing (C02).  The lexer and the parser definition below are harness
// INPUTS (they stand for "any lexer result" / "any expected set"), the code under test is the real next_token.
use crate::lexer::{Lexer, Token};
use crate::lr::builder::TreeBuilder;

pub(crate) struct SymLexer {
    pub n: usize,
    pub kinds: [u8; 3],
    pub lens: [usize; 3],
}
impl<'i> Lexer<'i, Ctx<'i>, St, Tk> for SymLexer {
    type Input = [u8];
    fn next_tokens(&self, context: &mut Ctx<'i>, input: &'i [u8], _expected: Vec<(Tk, bool)>) -> Box<dyn Iterator<Item = Token<'i, [u8], Tk>> + 'i> {
        let p = context.position();
        let mut v: Vec<Token<'i, [u8], Tk>> = Vec::new();
        let mut i = 0;
        while i < self.n {
            let value = &input[p.pos..p.pos + self.lens[i]];
            v.push(Token { kind: Tk(self.kinds[i]), value, span: value.span_from(p) });
            i += 1;
        }
        std::mem::forget(_expected);
        Box::new(v.into_iter())
    }
}
pub(crate) struct Def<const LM: bool> {
    pub stop_expected: bool,
}
impl<const LM: bool> ParserDefinition<St, u8, Tk, u8> for Def<LM> {
    fn actions(&self, _state: St, _token: Tk) -> Vec<Action<St, u8>> {
        vec![]
    }
    fn goto(&self, state: St, _nonterm: u8) -> St {
        state
    }
    fn expected_token_kinds(&self, _state: St) -> Vec<(Tk, bool)> {
        if self.stop_expected { vec![(Tk(1), false), (Tk(0), false)] } else { vec![(Tk(1), false), (Tk(2), false)] }
    }
    fn longest_match() -> bool {
        LM
    }
    fn grammar_order() -> bool {
        true
    }
}

/// A decision table of concrete (candidate count, candidate lengths, start position) cases; kinds, input bytes,
/// partial_parse, "STOP expected" and the context are symbolic.  Why concrete: with symbolic lengths the `retain` of the
/// longest-match filter moves a symbolic number of Tokens and CBMC exceeded the 13 GB cap; one concrete case costs about a
/// minute, so the table is small: no candidate; one; two (shorter first, longer first, tie); three (tie between the last
/// two which are longest; first longest; all equal).
fn next_token_harness<const LM: bool>(part: u8) {
    // split in three: the eight cases together exceeded the 13 GB cap in CBMC's propositional reduction
    if part == 0 {
        next_token_case::<LM>(0, [1, 1, 1], 0);
        next_token_case::<LM>(1, [2, 1, 1], 2);
        next_token_case::<LM>(2, [1, 2, 1], 0);
    } else if part == 1 {
        next_token_case::<LM>(2, [2, 1, 1], 0);
        next_token_case::<LM>(2, [2, 2, 1], 1);
        next_token_case::<LM>(3, [1, 2, 2], 0);
    } else {
        next_token_case::<LM>(3, [2, 1, 1], 0);
        next_token_case::<LM>(3, [1, 1, 1], 0);
    }
    kani::cover!(true, "all cases executed");
}
fn next_token_case<const LM: bool>(lexer_n: usize, lens: [usize; 3], start: usize) {
    let input: [u8; 4] = kani::any();
    let kinds: [u8; 3] = kani::any();
    let lexer = SymLexer { n: lexer_n, kinds, lens };
    let def = Def::<LM> { stop_expected: kani::any() };
    let partial: bool = kani::any();
    let parser: LRParser<Ctx, St, u8, Tk, u8, Def<LM>, SymLexer, TreeBuilder<[u8], u8, Tk>, [u8]> =
        LRParser::new(&def, St(0), partial, false, lexer, TreeBuilder::new());
    let mut ctx: Ctx = LRContext::new(Position { pos: start, line_col: None });
    let last = any_span();
    ctx.set_span(last);
    let st0 = ctx.state();
    let r = parser.next_token(&input[..], &mut ctx, &None);
    // the contract that unit lr_driver (Verus) ASSUMES of next_token, checked here on the real body (bounded): the
    // context's state is left alone and -- there is no layout parser -- so is its span
    assert!(ctx.state() == st0 && ctx.span() == last, "lr_driver's assumed contract of next_token");
    if lexer_n > 0 {
        // which token must be chosen
        let mut best = 0;
        if LM {
            let mut i = 1;
            while i < lexer_n {
                if lens[i] > lens[best] { best = i; } // longest; the FIRST among equally long ones (grammar order)
                i += 1;
            }
        }
        match &r {
            Ok(t) => {
                assert!(t.kind == Tk(kinds[best]), "C06: wrong token selected");
                assert!(t.value.len() == lens[best]);
                assert!(t.span.start.pos == start && t.span.end.pos == start + lens[best]);
            }
            Err(_) => panic!("C06: a token was available but next_token failed"),
        }
    } else if partial && def.stop_expected {
        // C02: synthetic STOP only when nothing matches, partial parsing is on and STOP is expected here
        match &r {
            Ok(t) => {
                assert!(t.kind == Tk(0) && t.value.len() == 0 && t.span == last);
            }
            Err(_) => panic!("C02: partial parse must yield STOP here"),
        }
    } else {
        assert!(r.is_err(), "C12: no token and no STOP allowed: must be an error");
    }
    std::mem::forget(r);
    std::mem::forget(parser);
}
/// Stand-in for error::error_expected WITHOUT its message formatting (format!/Debug of the expected kinds dominates
/// CBMC's cost); position and shape of the error are kept.  error_expected itself is checked by `error_expected_shape`.
fn stub_error_expected<'i, I, S, TK, C>(_input: &'i I, _file_name: &str, context: &C, _expected: &[TK]) -> crate::Error
where
    C: Context<'i, I, S, TK>,
    I: Input + ?Sized,
    S: State,
    TK: Debug,
{
    crate::Error::ParseError(Box::new(crate::ParseError { message: String::new(), src: None, file: None, span: Some(context.position().into()) }))
}

/// log!() consults RUSTEMO_TRACE through std::env::var_os in debug builds (a foreign call): stubbed, tracing off.
fn stub_var_os<K: AsRef<std::ffi::OsStr>>(_key: K) -> Option<std::ffi::OsString> {
    None
}

/// bounded(eight concrete (count, lengths, position) cases with <= 3 candidate tokens, split over three harnesses)
#[kani::proof]
#[kani::unwind(6)]
#[kani::stub(crate::error::error_expected, stub_error_expected)]
#[kani::stub(std::env::var_os, stub_var_os)]
fn next_token_lm_few() {
    next_token_harness::<true>(0)
}
#[kani::proof]
#[kani::unwind(6)]
#[kani::stub(crate::error::error_expected, stub_error_expected)]
#[kani::stub(std::env::var_os, stub_var_os)]
fn next_token_lm_ties() {
    next_token_harness::<true>(1)
}
#[kani::proof]
#[kani::unwind(6)]
#[kani::stub(crate::error::error_expected, stub_error_expected)]
#[kani::stub(std::env::var_os, stub_var_os)]
fn next_token_lm_three() {
    next_token_harness::<true>(2)
}
#[kani::proof]
#[kani::unwind(6)]
#[kani::stub(crate::error::error_expected, stub_error_expected)]
#[kani::stub(std::env::var_os, stub_var_os)]
fn next_token_first_match() {
    next_token_harness::<false>(0);
    next_token_harness::<false>(1);
    next_token_harness::<false>(2);
}

// ---------------------------------------------------------------------------------------------------------------
// Group D: the real LR driver end to end on a hand-written table (harness INPUT, not a model):
//   G1:  S: 'a' S | EMPTY      (productions: 0 = S: a S, 1 = S: <empty>; nonterminal 0 = S)
// with a well-behaved byte lexer (tries exactly the expected kinds at the current byte).
pub(crate) struct ByteLexer;
impl<'i> Lexer<'i, Ctx<'i>, St, Tk> for ByteLexer {
    type Input = [u8];
    fn next_tokens(&self, context: &mut Ctx<'i>, input: &'i [u8], expected: Vec<(Tk, bool)>) -> Box<dyn Iterator<Item = Token<'i, [u8], Tk>> + 'i> {
        let p = context.position();
        let mut found: Option<Token<'i, [u8], Tk>> = None;
        let mut i = 0;
        while i < expected.len() {
            let k = expected[i].0;
            if found.is_none() {
                if k == Tk(0) {
                    if p.pos == input.len() {
                        let v = &input[p.pos..p.pos];
                        found = Some(Token { kind: k, value: v, span: v.span_from(p) });
                    }
                } else if p.pos < input.len() && input[p.pos] == b'a' + (k.0 - 1) {
                    let v = &input[p.pos..p.pos + 1];
                    found = Some(Token { kind: k, value: v, span: v.span_from(p) });
                }
            }
            i += 1;
        }
        std::mem::forget(expected);
        Box::new(found.into_iter())
    }
}
pub(crate) struct G1;
impl ParserDefinition<St, u8, Tk, u8> for G1 {
    fn actions(&self, state: St, token: Tk) -> Vec<Action<St, u8>> {
        match (state.0, token.0) {
            (0, 1) | (1, 1) => vec![Action::Shift(St(1))],
            (0, 0) | (1, 0) => vec![Action::Reduce(1, 0)],
            (2, 0) => vec![Action::Accept],
            (3, 0) => vec![Action::Reduce(0, 2)],
            _ => vec![],
        }
    }
    fn goto(&self, state: St, _nonterm: u8) -> St {
        match state.0 { 0 => St(2), _ => St(3) }
    }
    fn expected_token_kinds(&self, state: St) -> Vec<(Tk, bool)> {
        match state.0 { 0 | 1 => vec![(Tk(1), true), (Tk(0), false)], _ => vec![(Tk(0), false)] }
    }
    fn longest_match() -> bool { true }
    fn grammar_order() -> bool { true }
}
fn leaves(n: &crate::lr::builder::TreeNode<'_, [u8], u8, Tk>) -> usize {
    match n {
        crate::lr::builder::TreeNode::TermNode { .. } => 1,
        crate::lr::builder::TreeNode::NonTermNode { prod, children, .. } => {
            // S: a S  has two children (a leaf, an S); S: <empty> has none
            if *prod == 0 { assert!(children.len() == 2); 1 + leaves(&children[1]) } else { assert!(children.len() == 0); 0 }
        }
    }
}

/// bounded(input <= 2 bytes over all byte values): Ok <=> every byte is 'a' (C01); the tree is the derivation of the
/// input (C02); a non-member is an Err at the first offending byte (C12); no panic (C15).
#[kani::proof]
#[kani::unwind(8)]
#[kani::stub(crate::error::error_expected, stub_error_expected)]
#[kani::stub(std::env::var_os, stub_var_os)]
fn driver_g1() {
    const N: usize = 2;
    let buf: [u8; N] = kani::any();
    let len: usize = kani::any();
    kani::assume(len <= N);
    let input = &buf[..len];
    let def = G1;
    let parser: LRParser<Ctx, St, u8, Tk, u8, G1, ByteLexer, TreeBuilder<[u8], u8, Tk>, [u8]> =
        LRParser::new(&def, St(0), false, false, ByteLexer, TreeBuilder::new());
    let r = parser.parse(input);
    let mut first_bad = len;
    let mut i = 0;
    while i < len {
        if first_bad == len && input[i] != b'a' { first_bad = i; }
        i += 1;
    }
    match &r {
        Ok(tree) => {
            assert!(first_bad == len, "C01: a non-sentence was accepted");
            assert!(leaves(tree) == len, "C02: the leaves are not the tokens of the input");
        }
        Err(e) => {
            assert!(first_bad < len, "C01/C12: a sentence was rejected");
            match e {
                crate::Error::ParseError(pe) => assert!(pe.span.unwrap().start.pos == first_bad, "C12: error not at the first offending token"),
                _ => panic!("unexpected error kind"),
            }
        }
    }
    kani::cover!(len == 2 && first_bad == len, "aa accepted");
    kani::cover!(len == 2 && first_bad == 1, "rejected at the second byte");
    std::mem::forget(r);
    std::mem::forget(parser);
}

// Concrete playback (./check <id> --replay): Kani's generated unit test is written to this file, which is empty otherwise.
include!("/verif/build/gen/playback_rustemo_lr_parser.rs");

// ---------------------------------------------------------------------------------------------------------------
// LRParser::next_token WITH a layout parser (C02 "enabling partial parsing never turns an accepted input into a ...
// differently parsed one", C14 layout_ahead, C12 error position after layout).  The layout parser is the REAL LRParser
// (parse_with_context + SliceBuilder) on a hand-written three-state layout table (harness INPUT):
//   Layout: Ws      states: 9 = layout start, 10 = after Ws, 11 = after Layout
// Everything is concrete except the flags partial_parse / "STOP expected in the content state" (symbolic), so that CBMC
// runs the nested driver concretely.  Input " x": one blank, then a content token `x`.
#[derive(Debug, Default, Clone, Copy, PartialEq, Eq)]
pub(crate) struct LSt(pub u8);
impl State for LSt {
    fn default_layout() -> Option<Self> {
        Some(LSt(9))
    }
}
type LCtx<'i> = LRContext<'i, [u8], LSt, Tk>;
pub(crate) struct LayLexer;
impl<'i> Lexer<'i, LCtx<'i>, LSt, Tk> for LayLexer {
    type Input = [u8];
    fn next_tokens(&self, context: &mut LCtx<'i>, input: &'i [u8], expected: Vec<(Tk, bool)>) -> Box<dyn Iterator<Item = Token<'i, [u8], Tk>> + 'i> {
        let p = context.position();
        let layout_state = context.state().0 >= 9;
        let mut found: Option<Token<'i, [u8], Tk>> = None;
        if p.pos < input.len() {
            let v = &input[p.pos..p.pos + 1];
            // kind 5 = Ws (a blank), only looked for by the layout states; kind 1 = the content token `x`
            if layout_state && input[p.pos] == b' ' {
                found = Some(Token { kind: Tk(5), value: v, span: v.span_from(p) });
            } else if !layout_state && input[p.pos] == b'x' {
                found = Some(Token { kind: Tk(1), value: v, span: v.span_from(p) });
            }
        }
        std::mem::forget(expected);
        Box::new(found.into_iter())
    }
}
pub(crate) struct LayDef {
    pub stop_expected: bool,
}
impl ParserDefinition<LSt, u8, Tk, u8> for LayDef {
    fn actions(&self, state: LSt, token: Tk) -> Vec<Action<LSt, u8>> {
        match (state.0, token.0) {
            (9, 5) => vec![Action::Shift(LSt(10))],
            (10, 0) => vec![Action::Reduce(0, 1)],
            (11, 0) => vec![Action::Accept],
            _ => vec![],
        }
    }
    fn goto(&self, _state: LSt, _nonterm: u8) -> LSt {
        LSt(11)
    }
    fn expected_token_kinds(&self, state: LSt) -> Vec<(Tk, bool)> {
        match state.0 {
            9 => vec![(Tk(5), false)],
            10 | 11 => vec![(Tk(0), false)],
            _ => if self.stop_expected { vec![(Tk(1), false), (Tk(0), false)] } else { vec![(Tk(1), false)] },
        }
    }
    fn longest_match() -> bool { true }
    fn grammar_order() -> bool { true }
}

/// bounded(one concrete input " x"; partial_parse and "STOP expected" symbolic).
/// NOT REGISTERED: measured -- timed out at 1500 s (the nested real driver, as in group D).  Seeds C02a and C12a, which
/// need a layout parser to manifest, stay missed.  Kept for the record.
#[kani::proof]
#[kani::unwind(8)]
#[kani::stub(crate::error::error_expected, stub_error_expected)]
#[kani::stub(std::env::var_os, stub_var_os)]
fn next_token_after_layout() {
    let input: [u8; 2] = [b' ', b'x'];
    let def = LayDef { stop_expected: kani::any() };
    let partial: bool = kani::any();
    let parser: LRParser<LCtx, LSt, u8, Tk, u8, LayDef, LayLexer, TreeBuilder<[u8], u8, Tk>, [u8]> =
        LRParser::new(&def, LSt(0), partial, true, LayLexer, TreeBuilder::new());
    // the layout parser exactly as parse_with_context builds it
    let layout_parser = Some(LRParser::new_default(&def, LSt(9), true, false, Rc::clone(&parser.lexer), RefCell::new(SliceBuilder::new(&input[..]))));
    let mut ctx: LCtx = LRContext::new(Position { pos: 0, line_col: None });
    let r = parser.next_token(&input[..], &mut ctx, &layout_parser);
    // whatever the partial-parse setting: the blank is layout, the token is `x` at offset 1
    match &r {
        Ok(t) => {
            assert!(t.kind == Tk(1), "C02: partial parsing changed which token is found after layout (synthetic STOP before the layout was tried?)");
            assert!(t.span.start.pos == 1 && t.span.end.pos == 2);
        }
        Err(_) => panic!("C02/C12: a token follows the layout but next_token failed"),
    }
    assert!(ctx.position().pos == 1, "C14: position not moved over the layout");
    assert!(matches!(ctx.layout_ahead(), Some(l) if l.len() == 1 && l[0] == b' '), "C14: the layout in front of the token is not stored");
    assert!(ctx.state() == LSt(0), "lr_driver's assumed contract of next_token: the context's state is restored after the layout parse");
    kani::cover!(partial && def.stop_expected, "partial parse with STOP expected");
    std::mem::forget(r);
    std::mem::forget(layout_parser);
    std::mem::forget(parser);
}
