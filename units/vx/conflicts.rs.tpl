// Unit conflicts: the conflict-resolution statements of LRTable::calculate_reductions (rustemo-compiler/src/table/mod.rs)
// under a whole-cell contract taken from the text of C05 -- for EVERY cell (any number of entries), every priority,
// associativity, flag and algorithm.  The statements reach Verus through R-LIFT (tools/lift.py: the `else` arm of
// `if actions.is_empty()`, verbatim, as the body of a method whose receiver/parameters are exactly its free variables).
#![feature(allocator_api)]
use vstd::prelude::*;
use std::collections::BTreeMap;
use std::alloc::Allocator;
use std::borrow::Borrow;
use core::cmp::Ordering;
use std::ops::{Index, IndexMut};
use std::collections::btree_set::Iter as BTreeSetIter;
use std::fmt;
use vstd::std_specs::iter::IteratorSpec;
use vstd::std_specs::btree::*;

//@file IDX rustemo-compiler/src/index.rs
//@file GRM rustemo-compiler/src/grammar/mod.rs
//@file SET rustemo-compiler/src/settings.rs
//@file TBL rustemo-compiler/src/table/mod.rs

// `Action` keeps its real derives (Debug is needed by the `panic!("... {other:?}")` in the range, Clone by `.clone()`).
// Verus gives no specification to a derived Clone that is not a copy, so the definition is placed outside verus!{} and
// made known -- transparently, variants and fields visible -- through external_type_specification; the derived
// `clone` is then given the contract "returns an equal value" (ASSUMED, listed).
//@allow external_type_specification Action: real definition outside verus!{}, structure visible to Verus (not opaque)
//@allow assume_specification derived <Action as Clone>::clone returns a value equal to its argument (what #[derive(Clone)] generates)
//@enum TBL Action derive=Debug,Clone
//@end
verus! {

#[verifier::external_type_specification]
pub struct ExAction(Action);
pub assume_specification [<Action as Clone>::clone] (a: &Action) -> (r: Action)
    ensures r == *a;

// ---- index newtypes: text of create_index!(..) instantiated mechanically (R-MACRO) ------------------------------------
//@allow external_body hand-written `impl fmt::Debug` of the index newtypes (write! formatting code): bodies not verified, only reachable from the panic! message
//@macro STA IDX create_index invoked_in=IDX index=StateIndex collection=StateVec
//@struct STA StateIndex derive=Copy,Clone
//@end
//@impl STA /^impl fmt \W+ Debug for StateIndex/
//@  fn fmt xbody
//@end
//@macro PRD IDX create_index invoked_in=IDX index=ProdIndex collection=ProdVec
//@struct PRD ProdIndex derive=Copy,Clone
//@end
//@impl PRD /^impl fmt \W+ Debug for ProdIndex/
//@  fn fmt xbody
//@end
//@struct PRD ProdVec
//@end
impl<T> vstd::std_specs::core::IndexSpecImpl<ProdIndex> for ProdVec<T> {
    open spec fn index_req(&self, index: &ProdIndex) -> bool { index.0 < self.0@.len() }
}
//@impl PRD /^impl < T > Index < ProdIndex > for ProdVec < T >/
//@  type Output
//@  fn index ret=r
//@  |             ensures *r == self.0@[index.0 as int],
//@end
//@macro TRM IDX create_index invoked_in=IDX index=TermIndex collection=TermVec
//@struct TRM TermIndex derive=Copy,Clone,PartialEq,Eq,PartialOrd,Ord
//@end
//@struct TRM TermVec
//@end
impl<T> vstd::std_specs::core::IndexSpecImpl<TermIndex> for TermVec<T> {
    open spec fn index_req(&self, index: &TermIndex) -> bool { index.0 < self.0@.len() }
}
//@impl TRM /^impl < T > Index < TermIndex > for TermVec < T >/
//@  type Output
//@  fn index ret=r
//@  |             ensures *r == self.0@[index.0 as int],
//@end
//@impl TRM /^impl < T > TermVec < T >/
//@  fn len ret=r
//@  |                 ensures r == self.0@.len(),
//@end
//@allow external_body TermVec::index_mut is the one-line wrapper `self.0.index_mut(index.0)`; Vec's IndexMut::index_mut called as a method has no vstd contract, so the wrapper is given the contract of `&mut self.0[index.0]`
//@impl TRM /^impl < T > IndexMut < TermIndex > for TermVec < T >/
//@  fn index_mut ret=r xbody
//@  |             ensures *r == old(self).0@[index.0 as int], final(self).0@ == old(self).0@.update(index.0 as int, *final(r)),
//@end
//@macro SYM IDX create_index invoked_in=IDX index=SymbolIndex collection=SymbolVec
//@struct SYM SymbolIndex derive=Copy,Clone,PartialEq,Eq,PartialOrd,Ord
//@end
// Assumption (listed in evidence): the *derived* PartialEq/PartialOrd/Ord of the usize newtype compare the single
// field -- what #[derive] generates.  Stated through vstd's spec traits so that BTreeSet's contracts apply.
impl vstd::std_specs::cmp::PartialEqSpecImpl for SymbolIndex {
    open spec fn obeys_eq_spec() -> bool { true }
    open spec fn eq_spec(&self, other: &Self) -> bool { self.0 == other.0 }
}
impl vstd::std_specs::cmp::PartialOrdSpecImpl for SymbolIndex {
    open spec fn obeys_partial_cmp_spec() -> bool { true }
    open spec fn partial_cmp_spec(&self, other: &Self) -> Option<Ordering> {
        Some(if self.0 < other.0 { Ordering::Less } else if self.0 == other.0 { Ordering::Equal } else { Ordering::Greater })
    }
}
impl vstd::std_specs::cmp::OrdSpecImpl for SymbolIndex {
    open spec fn obeys_cmp_spec() -> bool { true }
    open spec fn cmp_spec(&self, other: &Self) -> Ordering {
        if self.0 < other.0 { Ordering::Less } else if self.0 == other.0 { Ordering::Equal } else { Ordering::Greater }
    }
}
pub proof fn lemma_symbol_index_is_a_btree_key()
    ensures vstd::laws_cmp::obeys_cmp::<SymbolIndex>(), vstd::std_specs::btree::key_obeys_cmp_spec::<SymbolIndex>(),
{
    broadcast use vstd::std_specs::btree::axiom_key_obeys_cmp_spec_meaning;
    reveal(vstd::laws_cmp::obeys_partial_cmp_spec_properties);
    reveal(vstd::laws_cmp::obeys_cmp_partial_ord);
    reveal(vstd::laws_cmp::obeys_cmp_ord);
    reveal(vstd::laws_eq::obeys_eq_spec_properties);
    reveal(vstd::laws_eq::obeys_eq);
}
//@macro ITM IDX create_index invoked_in=TBL index=ItemIndex collection=ItemVec
//@struct ITM ItemIndex derive=Copy,Clone
//@end
//@macro NTI IDX create_index invoked_in=IDX index=NonTermIndex collection=NonTermVec
//@struct NTI NonTermIndex derive=Copy,Clone
//@end
//@struct NTI NonTermVec
//@end
impl<T> vstd::std_specs::core::IndexSpecImpl<NonTermIndex> for NonTermVec<T> {
    open spec fn index_req(&self, index: &NonTermIndex) -> bool { index.0 < self.0@.len() }
}
//@impl NTI /^impl < T > Index < NonTermIndex > for NonTermVec < T >/
//@  type Output
//@  fn index ret=r
//@  |             ensures *r == self.0@[index.0 as int],
//@end
//@allow external_body NonTermVec::index_mut: the same one-line wrapper as TermVec::index_mut, same contract
//@impl NTI /^impl < T > IndexMut < NonTermIndex > for NonTermVec < T >/
//@  fn index_mut ret=r xbody
//@  |             ensures *r == old(self).0@[index.0 as int], final(self).0@ == old(self).0@.update(index.0 as int, *final(r)),
//@end

// ---- the real types the range reads, projected to the fields it mentions (R-PROJ) --------------------------------------
//@enum GRM Associativity
//@end
//@type GRM Priority
//@const GRM DEFAULT_PRIORITY
//@struct GRM ResolvingAssignment fields=-
//@end
//@struct GRM Production fields=prio,assoc,nops,nopse,rhs,nonterminal
//@end
//@struct GRM Terminal fields=idx,assoc
//@end
//@struct GRM Grammar fields=productions,terminals,augmented_index,augmented_layout_index,stop_index
//@end
//@enum SET ParserAlgo
//@end
//@struct SET Settings fields=prefer_shifts,prefer_shifts_over_empty,parser_algo
//@end
//@struct TBL LRState fields=idx,grammar,max_prior_for_term,actions,gotos,symbol
//@end
//@struct TBL LRItem fields=prod,prod_len,position
//@end
//@struct TBL LRTable fields=grammar,settings
//@end

// ---- std contracts Verus lacks (ASSUMED, listed) --------------------------------------------------------------------------
//@allow assume_specification Vec::retain keeps exactly the elements for which the closure returns true, in order (std dependency)
//@allow assume_specification <BTreeMap as Index<&Q>>::index returns the value stored under the key (std dependency)
//@allow axiom fn BTreeMap indexing does not panic when the key is present (std dependency; vstd has no IndexSpecImpl for BTreeMap)
pub assume_specification<T, A: Allocator, F: FnMut(&T) -> bool> [Vec::<T, A>::retain] (v: &mut Vec<T, A>, f: F)
    requires forall|x: &T| #[trigger] f.requires((x,)),
    ensures forall|p: spec_fn(T) -> bool| (forall|x: &T, b: bool| #[trigger] f.ensures((x,), b) ==> b == p(*x))
        ==> final(v)@ == #[trigger] old(v)@.filter(p);

pub broadcast axiom fn axiom_btree_map_index_req<K: Ord + Borrow<Q>, Q: Ord + ?Sized, V>(m: &BTreeMap<K, V>, k: &Q)
    ensures contains_borrowed_key(m@, k) ==> #[trigger] vstd::std_specs::core::IndexSpec::index_req(m, &k);
pub assume_specification<'q, 'm, K: Borrow<Q> + Ord, Q: ?Sized + Ord, V, A: Allocator + Clone> [<BTreeMap<K, V, A> as Index<&'q Q>>::index] (m: &'m BTreeMap<K, V, A>, k: &Q) -> (r: &'m V)
    ensures contains_borrowed_key(m@, k) ==> maps_borrowed_key_to_value(m@, k, *r);

// ---- sequence-filter lemmas (proved) ---------------------------------------------------------------------------------------
pub proof fn lemma_filter_mem<A>(s: Seq<A>, p: spec_fn(A) -> bool)
    ensures forall|i: int| 0 <= i < s.filter(p).len() ==> p(#[trigger] s.filter(p)[i]) && s.contains(s.filter(p)[i]),
    decreases s.len(),
{
    reveal(Seq::filter);
    if s.len() > 0 {
        lemma_filter_mem(s.drop_last(), p);
        assert forall|i: int| 0 <= i < s.filter(p).len() implies p(#[trigger] s.filter(p)[i]) && s.contains(s.filter(p)[i]) by {
            let sub = s.drop_last().filter(p);
            if i < sub.len() {
                assert(s.drop_last().contains(sub[i]));
                let j = choose|j: int| 0 <= j < s.drop_last().len() && s.drop_last()[j] == sub[i];
                assert(s[j] == sub[i]);
            } else {
                assert(s[s.len() - 1] == s.last());
            }
        }
    }
}
pub proof fn lemma_filter_all<A>(s: Seq<A>, p: spec_fn(A) -> bool)
    requires forall|i: int| 0 <= i < s.len() ==> p(#[trigger] s[i]),
    ensures s.filter(p) == s,
    decreases s.len(),
{
    reveal(Seq::filter);
    if s.len() > 0 {
        lemma_filter_all(s.drop_last(), p);
        assert(s.drop_last().push(s.last()) =~= s);
    } else {
        assert(s.filter(p) =~= s);
    }
}
pub proof fn lemma_filter_implied<A>(s: Seq<A>, p: spec_fn(A) -> bool, q: spec_fn(A) -> bool)
    requires forall|x: A| #[trigger] p(x) ==> q(x),
    ensures s.filter(p).filter(q) == s.filter(p),
{
    lemma_filter_mem(s, p);
    lemma_filter_all(s.filter(p), q);
}
pub proof fn lemma_filter_push<A>(s: Seq<A>, x: A, p: spec_fn(A) -> bool)
    ensures s.push(x).filter(p) == if p(x) { s.filter(p).push(x) } else { s.filter(p) },
{
    reveal(Seq::filter);
    assert(s.push(x).drop_last() =~= s);
}
pub proof fn lemma_filter_commute<A>(s: Seq<A>, p: spec_fn(A) -> bool, q: spec_fn(A) -> bool)
    ensures s.filter(p).filter(q) == s.filter(q).filter(p),
    decreases s.len(),
{
    reveal(Seq::filter);
    if s.len() > 0 {
        let d = s.drop_last();
        let x = s.last();
        lemma_filter_commute(d, p, q);
        assert(d.push(x) =~= s);
        lemma_filter_push(d, x, p);
        lemma_filter_push(d, x, q);
        if p(x) { lemma_filter_push(d.filter(p), x, q); }
        if q(x) { lemma_filter_push(d.filter(q), x, p); }
    }
}

// ---- specification of conflict resolution, from the text of C05 -----------------------------------------------------------
spec fn is_sa(a: Action) -> bool { a is Shift || a is Accept }
spec fn is_red(a: Action) -> bool { a is Reduce }
spec fn is_empty_red(a: Action) -> bool { a matches Action::Reduce(_, len) && len == 0 }
spec fn red_prod(a: Action) -> int { match a { Action::Reduce(p, _) => p.0 as int, _ => 0 } }
spec fn p_sa() -> spec_fn(Action) -> bool { |a: Action| is_sa(a) }
spec fn p_not_sa() -> spec_fn(Action) -> bool { |a: Action| !is_sa(a) }
spec fn p_not_red() -> spec_fn(Action) -> bool { |a: Action| !is_red(a) }
spec fn p_not_empty_red() -> spec_fn(Action) -> bool { |a: Action| !is_empty_red(a) }

/// cell invariant: a cell holds at most one SHIFT-or-ACCEPT ("Only one SHIFT or ACCEPT might exists for a single terminal")
spec fn cell_wf(c: Seq<Action>) -> bool { c.filter(p_sa()).len() <= 1 }

enum SR { DropNew, KeepBoth, RemoveShift }

/// "a terminal's associativity overriding the production's"
spec fn eff_assoc(pa: Associativity, ta: Associativity) -> Associativity { if ta is None { pa } else { ta } }

/// The documented shift/reduce rule: the higher priority wins; on equal priority associativity decides, left/reduce
/// keeping the reduction and right/shift keeping the shift; otherwise prefer_shifts / prefer_shifts_over_empty keep the
/// shift unless the production says nops / nopse; if nothing applies both stay.
spec fn sr_rule(pp: int, sp: int, pa: Associativity, ta: Associativity, empty: bool, ps: bool, pse: bool, nops: bool, nopse: bool) -> SR {
    if pp < sp { SR::DropNew } else if pp > sp { SR::RemoveShift } else {
        match eff_assoc(pa, ta) {
            Associativity::Left => SR::RemoveShift,
            Associativity::Right => SR::DropNew,
            Associativity::None => if (empty && pse && !nopse) || (!empty && ps && !nops) { SR::DropNew } else { SR::KeepBoth },
        }
    }
}

spec fn prio_of(g: &Grammar, a: Action) -> int { g.productions.0@[red_prod(a)].prio as int }

/// The documented reduce/reduce rule on cell c: strictly lower than every reduction in the cell -> the new one is
/// dropped; strictly higher than every one -> it replaces them; otherwise LR drops the empty reductions (and adds the new
/// one if it is non-empty or nothing is left), GLR keeps everything.
spec fn rr_rule(g: &Grammar, c: Seq<Action>, new: Action, pp: int, new_len: int, lr: bool) -> Seq<Action> {
    let reds = c.filter(p_not_sa());
    if reds.len() == 0 { c.push(new) }
    else if forall|i: int| 0 <= i < reds.len() ==> pp < prio_of(g, #[trigger] reds[i]) { c }
    else if forall|i: int| 0 <= i < reds.len() ==> pp > prio_of(g, #[trigger] reds[i]) { c.filter(p_not_red()).push(new) }
    else if lr {
        let c2 = c.filter(p_not_empty_red());
        if new_len > 0 || c2.len() == 0 { c2.push(new) } else { c2 }
    } else { c.push(new) }
}

/// "shift priority = max priority of productions shifting the terminal in this state"; ACCEPT counts as a shift of default priority
spec fn shift_prio_of(mp: Map<TermIndex, Priority>, t: &Terminal, shift: Action) -> int {
    if shift is Accept { DEFAULT_PRIORITY as int } else { mp[t.idx] as int }
}

spec fn resolve(g: &Grammar, s: &Settings, mp: Map<TermIndex, Priority>, item: &LRItem, prod: &Production, t: &Terminal, c: Seq<Action>, new: Action) -> Seq<Action> {
    let shifts = c.filter(p_sa());
    let lr = s.parser_algo is LR;
    if shifts.len() == 0 { rr_rule(g, c, new, prod.prio as int, item.prod_len as int, lr) }
    else {
        match sr_rule(prod.prio as int, shift_prio_of(mp, t, shifts[0]), prod.assoc, t.assoc, prod.rhs@.len() == 0, s.prefer_shifts, s.prefer_shifts_over_empty, prod.nops, prod.nopse) {
            SR::DropNew => c,
            SR::KeepBoth => rr_rule(g, c, new, prod.prio as int, item.prod_len as int, lr),
            SR::RemoveShift => rr_rule(g, c.filter(p_not_sa()), new, prod.prio as int, item.prod_len as int, lr),
        }
    }
}

/// what the range may assume about the cell and the tables it reads (established by calc_states/group_per_next_symbol
/// and by earlier iterations of calculate_reductions; the first clause is preserved by the range -- second postcondition)
spec fn cell_pre(g: &Grammar, mp: Map<TermIndex, Priority>, t: &Terminal, c: Seq<Action>) -> bool {
    &&& cell_wf(c)
    &&& forall|i: int| 0 <= i < c.len() && (#[trigger] c[i]) is Shift ==> mp.contains_key(t.idx)
    &&& forall|i: int| 0 <= i < c.len() && (#[trigger] c[i]) is Reduce ==> red_prod(c[i]) < g.productions.0@.len()
}

/// C02 "conflict resolution only removes candidate actions": nothing appears in a resolved cell from nowhere
proof fn lemma_resolve_only_removes(g: &Grammar, s: &Settings, mp: Map<TermIndex, Priority>, item: &LRItem, prod: &Production, t: &Terminal, c: Seq<Action>, new: Action)
    ensures forall|i: int| #![auto] 0 <= i < resolve(g, s, mp, item, prod, t, c, new).len()
        ==> c.contains(resolve(g, s, mp, item, prod, t, c, new)[i]) || resolve(g, s, mp, item, prod, t, c, new)[i] == new,
{
    let r = resolve(g, s, mp, item, prod, t, c, new);
    lemma_filter_mem(c, p_not_sa());
    lemma_filter_mem(c, p_not_red());
    lemma_filter_mem(c, p_not_empty_red());
    let d = c.filter(p_not_sa());
    lemma_filter_mem(d, p_not_red());
    lemma_filter_mem(d, p_not_empty_red());
    assert forall|i: int| #![auto] 0 <= i < r.len() implies c.contains(r[i]) || r[i] == new by {
        let x = r[i];
        if x != new {
            // r is one of: c, c.push(new), F(c), F(c).push(new), d, d.push(new), F(d), F(d).push(new) for a filter F
            if r == c || r == c.push(new) { assert(c[i] == x); }
            else if r == c.filter(p_not_red()) || r == c.filter(p_not_red()).push(new) { assert(c.filter(p_not_red())[i] == x); }
            else if r == c.filter(p_not_empty_red()) || r == c.filter(p_not_empty_red()).push(new) { assert(c.filter(p_not_empty_red())[i] == x); }
            else if r == d || r == d.push(new) { assert(d[i] == x); }
            else if r == d.filter(p_not_red()) || r == d.filter(p_not_red()).push(new) { assert(d.filter(p_not_red())[i] == x); assert(d.contains(x)); }
            else { assert(r == d.filter(p_not_empty_red()) || r == d.filter(p_not_empty_red()).push(new)); assert(d.filter(p_not_empty_red())[i] == x); assert(d.contains(x)); }
        }
    }
}

/// C16: the cell invariant that keeps `assert!(shifts.len() <= 1)` from firing is preserved (the new action is a REDUCE)
proof fn lemma_resolve_keeps_cell_wf(g: &Grammar, s: &Settings, mp: Map<TermIndex, Priority>, item: &LRItem, prod: &Production, t: &Terminal, c: Seq<Action>, new: Action)
    requires cell_wf(c), new is Reduce,
    ensures cell_wf(resolve(g, s, mp, item, prod, t, c, new)),
{
    let d = c.filter(p_not_sa());
    let sa = p_sa();
    // filtering by any predicate never increases the number of shift/accept entries; pushing a Reduce keeps it
    assert forall|q: spec_fn(Action) -> bool, x: Seq<Action>| #![auto] x.filter(sa).len() <= 1 implies x.filter(q).filter(sa).len() <= 1 by {
        lemma_filter_commute(x, q, sa);
        x.filter(sa).lemma_filter_len(q);
    }
    assert forall|x: Seq<Action>| #![auto] x.filter(sa).len() <= 1 implies x.push(new).filter(sa).len() <= 1 by {
        lemma_filter_push(x, new, sa);
    }
    lemma_filter_mem(c, p_not_sa());
    assert(d.filter(sa).len() <= 1) by { lemma_filter_commute(c, p_not_sa(), sa); c.filter(sa).lemma_filter_len(p_not_sa()); }
}

//@lift CB conflict_block
//@allow external_body xexpr_partition: the expression `actions.clone().into_iter().partition(|x| matches!(x, Action::Shift(_) | Action::Accept))` moved verbatim into an external function (Iterator::partition is a provided trait method: Verus accepts no specification for it); ASSUMED: it returns (the SHIFT/ACCEPT entries, the other entries), each in cell order
//@impl CB /^impl < 'g , 's > LRTable < 'g , 's >/
//@  fn conflict_block allclosures
//@  |         requires
//@  |             cell_pre(self.grammar, state.max_prior_for_term@, follow_term, old(actions)@),
//@  |         ensures
//@  |             final(actions)@ == resolve(self.grammar, self.settings, state.max_prior_for_term@, item, prod, follow_term, old(actions)@, new_reduce), // [C05, C02]
//@include conflict_annotations.inc
//@end

// ---- C01: REDUCE placement -- every lookahead of a reducing item gets the reduction -----------------------------------------
// R-LIFT reduce_block: the statement `for follow_symbol in item.follow.borrow().iter() { .. }` of calculate_reductions,
// verbatim (it contains the conflict_block range as the else-arm; the same ghost annotations are spliced, from
// inc/conflict_annotations.inc).
//@impl GRM /^impl Grammar/ has=symbol_to_term
//@  fn symbol_to_term_index ret=r
//@  |         ensures r.0 == index.0,
//@  fn nonterm_to_symbol_index ret=r
//@  |         requires index.0 + self.terminals.0@.len() <= usize::MAX,
//@  |         ensures r.0 == index.0 + self.terminals.0@.len(), // [C01]
//@  fn symbol_to_nonterm_index ret=r
//@  |         requires index.0 >= self.terminals.0@.len(),
//@  |         ensures r.0 == index.0 - self.terminals.0@.len(), // [C01]
//@  fn is_nonterm ret=r
//@  |         ensures r == (index.0 >= self.terminals.0@.len()), // [C01]
//@  fn symbol_to_term ret=r
//@  |         requires index.0 < self.terminals.0@.len(),
//@  |         ensures *r == self.terminals.0@[index.0 as int],
//@end

/// the content of an item's follow cell (RefCell<Follow>) -- read, never written, by the range
uninterp spec fn follow_of(item: &LRItem) -> Set<SymbolIndex>;

/// the cell of terminal t after the reduction of `item` on lookahead t has been registered
spec fn cell_after(g: &Grammar, s: &Settings, mp: Map<TermIndex, Priority>, item: &LRItem, prod: &Production, t: &Terminal, c: Seq<Action>, new: Action) -> Seq<Action> {
    if c.len() == 0 { seq![new] } else { resolve(g, s, mp, item, prod, t, c, new) }
}

/// what the range may assume (established by calc_states / the grammar builder / earlier iterations; not proved here)
spec fn reduce_pre(g: &Grammar, st: &LRState, item: &LRItem) -> bool {
    &&& st.actions.0@.len() == g.terminals.0@.len()
    &&& forall|t: int| 0 <= t < g.terminals.0@.len() ==> (#[trigger] g.terminals.0@[t]).idx.0 == t
    &&& forall|x: SymbolIndex| follow_of(item).contains(x) ==> x.0 < g.terminals.0@.len() // lookaheads are terminals
    &&& forall|t: int| 0 <= t < g.terminals.0@.len() ==> cell_pre(g, st.max_prior_for_term@, &g.terminals.0@[t], #[trigger] st.actions.0@[t]@)
}

/// the production is one of the augmented ones (S' -> S, or the layout grammar's): its left-hand side is in the list built in front of the loops
spec fn is_aug(g: &Grammar, aug: Seq<SymbolIndex>, prod: &Production) -> bool {
    aug.contains(SymbolIndex((prod.nonterminal.0 + g.terminals.0@.len()) as usize))
}

//@allow assume_specification <[T]>::contains returns whether some element equals the argument (std dependency; ASSUMED for the element type used here, SymbolIndex, whose derived == is equality of the wrapped usize)
pub assume_specification<T: PartialEq> [<[T]>::contains] (s: &[T], x: &T) -> (r: bool)
    ensures r == s@.contains(*x);

// ---- C01: SHIFT / GOTO placement -- the transition calc_states found is recorded under its symbol --------------------------------
//@lift GTB goto_block
//@impl GTB /^impl < 'g , 's > LRTable < 'g , 's >/
//@  fn goto_block
//@  |         requires
//@  |             target_state_symbol == new_state.symbol,
//@  |             old(state).actions.0@.len() == self.grammar.terminals.0@.len(),
//@  |             // every grammar symbol is a terminal or a non-terminal of the grammar (grammar builder)
//@  |             target_state_symbol.0 < self.grammar.terminals.0@.len() + old(state).gotos.0@.len(),
//@  |         ensures
//@  |             final(state).max_prior_for_term == old(state).max_prior_for_term,
//@  |             // [C01] a transition on a terminal becomes SHIFT(target) in that terminal's cell -- appended, nothing removed -- and leaves
//@  |             // every other cell and every GOTO alone; a transition on a non-terminal becomes GOTO(target) under that non-terminal and
//@  |             // leaves every other GOTO and every action cell alone
//@  |             target_state_symbol.0 < self.grammar.terminals.0@.len() ==> {
//@  |                 &&& final(state).gotos == old(state).gotos
//@  |                 &&& final(state).actions.0@.len() == old(state).actions.0@.len()
//@  |                 &&& forall|t: int| 0 <= t < old(state).actions.0@.len() ==> (#[trigger] final(state).actions.0@[t])@ ==
//@  |                     (if t == target_state_symbol.0 { old(state).actions.0@[t]@.push(Action::Shift(target_state_idx)) } else { old(state).actions.0@[t]@ })
//@  |             }, // [C01]
//@  |             target_state_symbol.0 >= self.grammar.terminals.0@.len() ==> {
//@  |                 &&& final(state).actions == old(state).actions
//@  |                 &&& final(state).gotos.0@ == old(state).gotos.0@.update(target_state_symbol.0 - self.grammar.terminals.0@.len(), Some(target_state_idx))
//@  |             }, // [C01]
//@end

// ---- C01: ACCEPT where STOP follows the dot (calc_states) -----------------------------------------------------------------------
//@lift ACB accept_block
//@impl ACB /^impl < 'g , 's > LRTable < 'g , 's >/
//@  fn accept_block
//@  |         requires
//@  |             old(state).actions.0@.len() == self.grammar.terminals.0@.len(),
//@  |             self.grammar.stop_index.0 < self.grammar.terminals.0@.len(), // STOP is a terminal
//@  |         ensures
//@  |             final(state).gotos == old(state).gotos,
//@  |             final(state).max_prior_for_term == old(state).max_prior_for_term,
//@  |             // [C01] a state with an item that has STOP after the dot accepts on STOP -- the cell of STOP becomes exactly [ACCEPT] -- and
//@  |             // only such a state; no other cell changes
//@  |             final(state).actions.0@.len() == old(state).actions.0@.len(),
//@  |             forall|t: int| 0 <= t < old(state).actions.0@.len() ==> (#[trigger] final(state).actions.0@[t])@ ==
//@  |                 (if t == self.grammar.stop_index.0 && per_next_symbol@.contains_key(self.grammar.stop_index) { seq![Action::Accept] } else { old(state).actions.0@[t]@ }), // [C01]
//@  before 1 "for &symbol in"
//@  |             proof { lemma_symbol_index_is_a_btree_key(); }
//@  |             let ghost stop = self.grammar.stop_index;
//@  loop 1 iter=kit
//@  |                 invariant_except_break
//@  |                     *state == *old(state), // [C01]
//@  |                     forall|i: int| 0 <= i < kit.index() ==> *kit.seq()[i] != stop, // [C01] nothing is written before STOP is met
//@  |                 invariant
//@  |                     kit.seq().unref().to_set() == per_next_symbol@.dom(),
//@  |                     stop == self.grammar.stop_index,
//@  |                     old(state).actions.0@.len() == self.grammar.terminals.0@.len(),
//@  |                     stop.0 < self.grammar.terminals.0@.len(),
//@  |                 ensures
//@  |                     state.gotos == old(state).gotos,
//@  |                     state.max_prior_for_term == old(state).max_prior_for_term,
//@  |                     state.actions.0@.len() == old(state).actions.0@.len(),
//@  |                     forall|t: int| 0 <= t < old(state).actions.0@.len() ==> (#[trigger] state.actions.0@[t])@ ==
//@  |                         (if t == stop.0 && per_next_symbol@.contains_key(stop) { seq![Action::Accept] } else { old(state).actions.0@[t]@ }), // [C01]
//@  before 1 "break;"
//@  |                     proof {
//@  |                         assert(kit.seq().unref()[kit.index() as int] == *kit.seq()[kit.index() as int]);
//@  |                         assert(kit.seq().unref().contains(stop));
//@  |                     }
//@end

//@lift AGB aug_block
//@impl AGB /^impl < 'g , 's > LRTable < 'g , 's >/
//@  fn aug_block ret=r
//@  |         ensures
//@  |             // [C01] the augmented symbols are S' and, when the grammar has a Layout rule, the layout grammar's start -- nothing else
//@  |             r@ == (match self.grammar.augmented_layout_index {
//@  |                 Some(l) => seq![self.grammar.augmented_index, l],
//@  |                 None => seq![self.grammar.augmented_index],
//@  |             }), // [C01]
//@end

//@lift RDB reduce_block
//@allow external_body xexpr_follow_iter: the expression `item.follow.borrow().iter()` (RefCell::borrow + Deref of std::cell::Ref + BTreeSet::iter; Verus accepts no specification for Ref's Deref impl) is replaced by a call of an external function (body dropped: a function cannot return an iterator borrowing from a temporary Ref); ASSUMED: it yields exactly the follow set of the item, each symbol once
//@impl RDB /^impl < 'g , 's > LRTable < 'g , 's >/
//@  fn reduce_block ret=r allclosures attr=verifier::loop_isolation(false)
//@  |         requires
//@  |             reduce_pre(self.grammar, old(state), item),
//@  |             item.prod.0 < self.grammar.productions.0@.len(),
//@  |             self.grammar.productions.0@[item.prod.0 as int].nonterminal.0 + self.grammar.terminals.0@.len() <= usize::MAX,
//@  |             self.grammar.terminals.0@.len() > 0, // terminal 0 is STOP
//@  |         ensures
//@  |             final(state).actions.0@.len() == old(state).actions.0@.len(),
//@  |             final(state).max_prior_for_term == old(state).max_prior_for_term,
//@  |             !r, // [C01] the item loop is never left early: every reducing item of the state is handled
//@  |             // [C01] ACCEPT: a completed augmented item -- and nothing else -- puts ACCEPT in the cell of STOP; an augmented item
//@  |             // touches no other cell (in particular its right-nulled variants place nothing)
//@  |             is_aug(self.grammar, aug_symbols@, &self.grammar.productions.0@[item.prod.0 as int]) ==>
//@  |                 forall|t: int| 0 <= t < old(state).actions.0@.len() ==> (#[trigger] final(state).actions.0@[t])@ ==
//@  |                     (if t == 0 && item.position == item.prod_len { old(state).actions.0@[t]@.push(Action::Accept) } else { old(state).actions.0@[t]@ }), // [C01]
//@  |             // [C01] REDUCE entries sit exactly on the item's lookaheads: the cell of every terminal in the follow set is the old
//@  |             // cell with Reduce(item.prod, item.position) registered (directly if it was empty, through conflict resolution
//@  |             // otherwise); every other cell is untouched
//@  |             !is_aug(self.grammar, aug_symbols@, &self.grammar.productions.0@[item.prod.0 as int]) ==>
//@  |               forall|t: int| 0 <= t < old(state).actions.0@.len() ==> (#[trigger] final(state).actions.0@[t])@ ==
//@  |                 (if follow_of(item).contains(SymbolIndex(t as usize)) {
//@  |                     cell_after(self.grammar, self.settings, old(state).max_prior_for_term@, item, &self.grammar.productions.0@[item.prod.0 as int], &self.grammar.terminals.0@[t], old(state).actions.0@[t]@,
//@  |                         Action::Reduce(item.prod, item.position))
//@  |                 } else { old(state).actions.0@[t]@ }), // [C01, C05]
//@  before 1 "for follow_symbol in"
//@  |                 let ghost a0 = state.actions.0@;
//@  |                 let ghost mp0 = state.max_prior_for_term@;
//@  |                 let ghost gg = self.grammar;
//@  |                 // the lookaheads handled so far
//@  |                 let ghost mut done: Set<SymbolIndex> = Set::empty();
//@  loop 1 iter=fit
//@  |                     invariant
//@  |                         fit.seq().unref().to_set() == follow_of(item),
//@  |                         fit.seq().no_duplicates(),
//@  |                         state.actions.0@.len() == a0.len(),
//@  |                         state.max_prior_for_term@ == mp0,
//@  |                         state.max_prior_for_term == old(state).max_prior_for_term,
//@  |                         new_reduce == Action::Reduce(item.prod, item.position),
//@  |                         done == fit.seq().take(fit.index()).unref().to_set(),
//@  |                         fit.index() == fit.seq().len() ==> done == follow_of(item),
//@  |                         forall|t: int| 0 <= t < a0.len() ==> (#[trigger] state.actions.0@[t])@ ==
//@  |                             (if done.contains(SymbolIndex(t as usize)) {
//@  |                                 cell_after(gg, self.settings, mp0, item, prod, &gg.terminals.0@[t], a0[t]@, new_reduce)
//@  |                             } else { a0[t]@ }), // [C01, C05]
//@  xexpr xexpr_follow_iter(item) = item.follow.borrow().iter()
//@  before 1 "let follow_term = self.grammar.symbol_to_term(*follow_symbol);"
//@  |                     let ghost ti = follow_symbol.0 as int;
//@  |                     proof {
//@  |                         assert(*follow_symbol == *fit.seq()[fit.index()]);
//@  |                         assert(fit.seq().unref().contains(*follow_symbol)) by { assert(fit.seq().unref()[fit.index()] == *follow_symbol); }
//@  |                         assert(follow_of(item).contains(*follow_symbol));
//@  |                     }
//@  after 1 "let follow_term = self.grammar.symbol_to_term(*follow_symbol);"
//@  |                     proof {
//@  |                         assert(*follow_term == gg.terminals.0@[ti] && follow_term.idx.0 == ti);
//@  |                         // this terminal was not handled before (the iterator yields each symbol once)
//@  |                         assert(!done.contains(*follow_symbol)) by {
//@  |                             if done.contains(*follow_symbol) {
//@  |                                 let pre = fit.seq().take(fit.index()).unref();
//@  |                                 let k = choose|k: int| 0 <= k < pre.len() && pre[k] == *follow_symbol;
//@  |                                 assert(*fit.seq()[k] == *fit.seq()[fit.index()]);
//@  |                                 assert(fit.seq()[k] == fit.seq()[fit.index()]);
//@  |                             }
//@  |                         }
//@  |                         assert(state.actions.0@[ti]@ == a0[ti]@);
//@  |                     }
//@  loopend 1
//@  |                     proof {
//@  |                         assert(fit.seq().take(fit.index() + 1).unref().to_set() == done.insert(*follow_symbol)) by {
//@  |                             let pre = fit.seq().take(fit.index());
//@  |                             let nxt = fit.seq().take(fit.index() + 1);
//@  |                             assert(nxt.unref() =~= pre.unref().push(*follow_symbol));
//@  |                             pre.unref().lemma_push_to_set_commute(*follow_symbol);
//@  |                         }
//@  |                         assert(fit.index() + 1 == fit.seq().len() ==> fit.seq().take(fit.index() + 1) =~= fit.seq());
//@  |                     }
//@  |                     proof { done = done.insert(*follow_symbol); }
//@include conflict_annotations.inc
//@end
//@xexprfn xexpr_follow_iter nobody
//@  | fn xexpr_follow_iter<'a>(item: &'a LRItem) -> (r: BTreeSetIter<'a, SymbolIndex>)
//@  |     ensures r.remaining().unref().to_set() == follow_of(item), r.remaining().no_duplicates(), r.decrease() is Some,
//@end

//@xexprfn xexpr_partition
//@  | fn xexpr_partition(actions: &Vec<Action>) -> (r: (Vec<Action>, Vec<Action>))
//@  |     ensures r.0@ == actions@.filter(p_sa()), r.1@ == actions@.filter(p_not_sa()),
//@end

} // verus!
fn main() {}
