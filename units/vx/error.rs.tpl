// Unit error: error_expected (rustemo/src/error.rs) -- C12 "an error whose position is the start of the first token that
// cannot continue": the ParseError built for a failed lookahead carries exactly the context's current position (zero
// width), the file name, and is built without panicking when at least one token kind is expected.
// The three message-formatting expressions (format!) are moved to external functions (R-XEXPR, bodies dropped): the
// message TEXT is not specified.
use vstd::prelude::*;
use std::fmt::Debug;
use std::ops::{Index, Range};
use std::borrow::ToOwned;

//@file POS rustemo/src/position.rs
//@file INP rustemo/src/input.rs
//@file PAR rustemo/src/parser.rs
//@file CTX rustemo/src/context.rs
//@file ERR rustemo/src/error.rs

// std::io::Error (payload of Error::IOError, never built here): opaque
//@allow external_type_specification std::io::Error: opaque std type (payload of Error::IOError, not constructed by error_expected)
//@allow external_body std::io::Error: opaque type
verus! {

#[verifier::external_type_specification]
#[verifier::external_body]
pub struct ExIoError(std::io::Error);

//@struct POS LineColumn derive=Clone,Copy
//@end
//@struct POS Position derive=Clone,Copy
//@end
//@struct POS SourceSpan derive=Clone,Copy
//@end
//@struct ERR ParseError derive=-
//@end
//@enum ERR Error derive=-
//@end

//@trait INP Input methods=try_to_string,position_after,len
//@  raw
//@  |     spec fn v_try_to_string(&self) -> Option<String>;
//@  fn try_to_string ret=r xbody
//@  |         ensures r == self.v_try_to_string(),
//@end
//@trait PAR State methods=default_layout
//@end
//@trait CTX Context methods=position,span,layout_ahead,state
//@  raw
//@  |     spec fn v_position(&self) -> Position;
//@  |     spec fn v_span(&self) -> SourceSpan;
//@  |     spec fn v_layout_ahead(&self) -> Option<&'i I>;
//@  |     spec fn v_state(&self) -> S;
//@  fn position ret=r
//@  |         ensures r == self.v_position(),
//@  fn span ret=r
//@  |         ensures r == self.v_span(),
//@  fn layout_ahead ret=r
//@  |         ensures r == self.v_layout_ahead(),
//@  fn state ret=r
//@  |         ensures r == self.v_state(),
//@end

// C12/C13: a position converts to the zero-width span at that position
impl vstd::std_specs::convert::FromSpecImpl<Position> for SourceSpan {
    open spec fn obeys_from_spec() -> bool { true }
    open spec fn from_spec(v: Position) -> Self { SourceSpan { start: v, end: v } }
}
//@impl POS /^impl From < Position > for SourceSpan/
//@  fn from
//@end

//@allow external_body xexpr_fmt_many / xexpr_fmt_one / xexpr_fmt_msg: the three `format!(..)` expressions of error_expected (message text) are replaced by calls of external functions whose bodies are dropped; nothing is assumed of the strings they return
//@allow external_body Input::try_to_string: default body returns None, <str>::try_to_string allocates; result taken as an uninterpreted function of the input


//@fn ERR error_expected ret=r
//@  |     requires expected@.len() >= 1, // the table lists at least one expected token kind for the state (generated tables: every state has an action)
//@  |     ensures
//@  |         r matches Error::ParseError(b) && b.span == Some(SourceSpan { start: context.v_position(), end: context.v_position() }) // [C12]
//@  |             && b.file is Some && b.src == input.v_try_to_string(), // [C12]
//@  xexpr xexpr_fmt_many(expected) = format!("one of {}",expected.iter().map(|t|format!("{:?}",t.paint(LOG))).collect::<Vec<_>>().join(", "))
//@  xexpr xexpr_fmt_one(&expected[0]) = format!("{:?}",expected[0])
//@  xexpr xexpr_fmt_msg(&expected) = format!("Expected {expected}.")
//@end
//@xexprfn xexpr_fmt_many nobody
//@  | fn xexpr_fmt_many<TK: Debug>(expected: &[TK]) -> (r: String)
//@end
//@xexprfn xexpr_fmt_one nobody
//@  | fn xexpr_fmt_one<TK: Debug>(expected: &TK) -> (r: String)
//@end
//@xexprfn xexpr_fmt_msg nobody
//@  | fn xexpr_fmt_msg(expected: &String) -> (r: String)
//@end

} // verus!
fn main() {}
