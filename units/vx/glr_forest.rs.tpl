// Unit glr_forest: forest index decoding and iteration (rustemo/src/glr/gss.rs) -- C03 (forest half), C15.
use vstd::prelude::*;
use std::rc::Rc;
use std::cell::RefCell;
use std::collections::VecDeque;
verus! {

//@file POS rustemo/src/position.rs
//@file INP rustemo/src/input.rs
//@file LEX rustemo/src/lexer.rs
//@file GSS rustemo/src/glr/gss.rs

//@struct POS LineColumn derive=Clone,Copy
//@end
//@struct POS Position derive=Clone,Copy
//@end
//@struct POS SourceSpan derive=Clone,Copy
//@end
//@trait INP Input nosuper methods=len,position_after
//@end
//@struct LEX Token
//@end
//@struct GSS TreeData
//@end

// The two recursive SPPF types are kept opaque: their definitions are the real text, placed outside the
// verus! block (Verus does not look inside: RefCell<VecDeque<Rc<..>>> is outside its reach), and made known
// to Verus through external_type_specification.  R-PROJ drops Parent's petgraph NodeIndex fields.
//@allow external_type_specification SPPFTree/Parent are opaque to Verus
//@allow assume machine arithmetic: the iterator cursor tree_idx stays below usize::MAX (fewer than 2^64 trees are enumerated); Iterator::next is a trait method, so this cannot be a `requires`
//@allow external_body SPPFTree/Parent opaque types; SPPFTree::solutions body not verified here (R-XBODY)
} // verus!
//@struct GSS Parent fields=possibilities
//@end
//@enum GSS SPPFTree
//@end
verus! {
#[verifier::external_type_specification]
#[verifier::external_body]
#[verifier::reject_recursive_types(I)]
#[verifier::reject_recursive_types(P)]
#[verifier::reject_recursive_types(TK)]
pub struct ExSPPFTree<'i, I: Input + ?Sized, P, TK: Copy>(SPPFTree<'i, I, P, TK>);

impl<'i, I: Input + ?Sized, P, TK: Copy> SPPFTree<'i, I, P, TK> {
    /// number of trees packed under this node -- the value SPPFTree::solutions returns (R-XBODY: assumed pure)
    pub uninterp spec fn v_solutions(&self) -> usize;
}

//@impl GSS /^impl < 'i , I , P , TK > SPPFTree < 'i , I , P , TK >/
//@  fn solutions ret=r xbody
//@  |         ensures r == self.v_solutions(),
//@end

//@struct GSS Tree attr=verifier::reject_recursive_types(I) attr=verifier::reject_recursive_types(P) attr=verifier::reject_recursive_types(TK)
//@end
//@struct GSS Forest attr=verifier::reject_recursive_types(I) attr=verifier::reject_recursive_types(P) attr=verifier::reject_recursive_types(TK)
//@end
//@struct GSS ForestIntoIter attr=verifier::reject_recursive_types(I) attr=verifier::reject_recursive_types(P) attr=verifier::reject_recursive_types(TK)
//@end
//@struct GSS ForestIterator attr=verifier::reject_recursive_types(I) attr=verifier::reject_recursive_types(P) attr=verifier::reject_recursive_types(TK)
//@end

pub type Roots<'i, I, P, TK> = Seq<Rc<SPPFTree<'i, I, P, TK>>>;

/// number of trees in roots[0..k]
pub open spec fn sum_sol<'i, I: Input + ?Sized, P, TK: Copy>(roots: Roots<'i, I, P, TK>, k: int) -> int
    decreases k,
{
    if k <= 0 { 0 } else { sum_sol(roots, k - 1) + roots[k - 1].v_solutions() as int }
}

/// (k, j) is the decoding of the global tree index idx
pub open spec fn decodes<'i, I: Input + ?Sized, P, TK: Copy>(roots: Roots<'i, I, P, TK>, idx: int, k: int, j: int) -> bool {
    0 <= k < roots.len() && 0 <= j < roots[k].v_solutions() && sum_sol(roots, k) + j == idx
}

pub proof fn lemma_sum_sol_monotone<'i, I: Input + ?Sized, P, TK: Copy>(roots: Roots<'i, I, P, TK>, a: int, b: int)
    requires 0 <= a <= b,
    ensures sum_sol(roots, a) <= sum_sol(roots, b),
    decreases b - a,
{
    if a < b {
        lemma_sum_sol_monotone(roots, a, b - 1);
    }
}

/// C03 "each derivation tree exactly once": the decoding of an index is unique ...
pub proof fn lemma_decoding_unique<'i, I: Input + ?Sized, P, TK: Copy>(roots: Roots<'i, I, P, TK>, idx: int, k1: int, j1: int, k2: int, j2: int)
    requires decodes(roots, idx, k1, j1), decodes(roots, idx, k2, j2),
    ensures k1 == k2 && j1 == j2,
{
    if k1 < k2 {
        lemma_sum_sol_monotone(roots, k1 + 1, k2);
    } else if k2 < k1 {
        lemma_sum_sol_monotone(roots, k2 + 1, k1);
    }
}

/// ... and distinct (k, j) decode distinct indexes, all below the total.
pub proof fn lemma_decoding_injective<'i, I: Input + ?Sized, P, TK: Copy>(roots: Roots<'i, I, P, TK>, i1: int, i2: int, k: int, j: int)
    requires decodes(roots, i1, k, j), decodes(roots, i2, k, j),
    ensures i1 == i2, i1 < sum_sol(roots, roots.len() as int),
{
    lemma_sum_sol_monotone(roots, k + 1, roots.len() as int);
}

/// The decoding as a function: walk the roots from k with residual index idx.
pub open spec fn locate<'i, I: Input + ?Sized, P, TK: Copy>(roots: Roots<'i, I, P, TK>, idx: int, k: int) -> Option<(int, int)>
    decreases roots.len() - k,
{
    if k < 0 || k >= roots.len() { None }
    else if idx < roots[k].v_solutions() { Some((k, idx)) }
    else { locate(roots, idx - roots[k].v_solutions(), k + 1) }
}

/// locate agrees with the weighted-sum reading of the property: Some((k, j)) iff (k, j) decodes idx; None iff idx >= total.
pub proof fn lemma_locate<'i, I: Input + ?Sized, P, TK: Copy>(roots: Roots<'i, I, P, TK>, idx0: int, idx: int, k: int)
    requires 0 <= k <= roots.len(), 0 <= idx, sum_sol(roots, k) + idx == idx0,
    ensures
        match locate(roots, idx, k) {
            Some((kk, j)) => decodes(roots, idx0, kk, j),
            None => idx0 >= sum_sol(roots, roots.len() as int),
        },
    decreases roots.len() - k,
{
    if k < roots.len() && idx >= roots[k].v_solutions() {
        assert(sum_sol(roots, k + 1) == sum_sol(roots, k) + roots[k].v_solutions() as int);
        lemma_locate(roots, idx0, idx - roots[k].v_solutions(), k + 1);
    }
}

impl<'i, I: Input + ?Sized, P, TK: Copy> Tree<'i, I, P, TK> {
    pub closed spec fn v_root(&self) -> Rc<SPPFTree<'i, I, P, TK>> { self.root }
    pub closed spec fn v_idx(&self) -> usize { self.idx }
}
impl<'i, I: Input + ?Sized, P, TK: Copy> Forest<'i, I, P, TK> {
    pub closed spec fn roots(&self) -> Roots<'i, I, P, TK> { self.results@ }
    pub open spec fn total(&self) -> int { sum_sol(self.roots(), self.roots().len() as int) }
    /// what get_tree(idx) must return, from the property text: the idx-th tree or nothing
    pub open spec fn tree_at(&self, idx: int, t: Option<Tree<'i, I, P, TK>>) -> bool {
        match locate(self.roots(), idx, 0) {
            None => t is None,
            Some((k, j)) => t is Some && t->0.v_root() == self.roots()[k] && t->0.v_idx() == j,
        }
    }
}
impl<'i, I: Input + ?Sized, P, TK: Copy> ForestIntoIter<'i, I, P, TK> {
    pub closed spec fn v_forest(&self) -> Forest<'i, I, P, TK> { self.forest }
    pub closed spec fn v_next(&self) -> usize { self.tree_idx }
}
impl<'i, 'f, I: Input + ?Sized, P, TK: Copy> ForestIterator<'i, 'f, I, P, TK> {
    pub closed spec fn v_forest(&self) -> &'f Forest<'i, I, P, TK> { self.forest }
    pub closed spec fn v_next(&self) -> usize { self.tree_idx }
}

//@impl GSS /^impl < 'i , I , P , TK > Tree < 'i , I , P , TK >/
//@  fn new ret=r
//@  |         ensures r.v_root() == root, r.v_idx() == idx,
//@  fn find_tree_root ret=r attr=verifier::loop_isolation(false)
//@  |         ensures
//@  |             match locate(roots@, tree_idx as int, 0) {
//@  |                 None => r is None,
//@  |                 Some((k, j)) => r is Some && (r->0).0 == roots@[k] && (r->0).1 == j,
//@  |             }, // [C03]
//@  before 1 "let mut tree_idx = tree_idx;"
//@  |         let ghost idx0 = tree_idx as int;
//@  loop 1
//@  |             invariant
//@  |                 0 <= root_idx < roots@.len(),
//@  |                 solutions == roots@[root_idx as int].v_solutions(),
//@  |                 locate(roots@, idx0, 0) == locate(roots@, tree_idx as int, root_idx as int),
//@  |             decreases roots@.len() - root_idx,
//@  after 1 "root_idx += 1;"
//@  |             proof { assert(locate(roots@, tree_idx as int, root_idx - 1) == locate(roots@, tree_idx - solutions, root_idx as int)); }
//@end

//@impl GSS /^impl < 'i , I , P , TK > Forest < 'i , I , P , TK >/ has=get_tree
//@  fn new ret=r
//@  |         ensures r.roots() == results@,
//@  fn get_first_tree ret=r
//@  |         ensures self.tree_at(0, r), // [C03]
//@  fn get_tree ret=r clospat
//@  |         ensures self.tree_at(idx as int, r), // [C03]
//@  closure 1
//@  | -> (t: Tree<'i, I, P, TK>) ensures t.v_root() == p__1.0, t.v_idx() == p__1.1,
//@  fn is_empty ret=r
//@  |         ensures r == (self.roots().len() == 0),
//@end

//@impl GSS /^impl < 'i , I , P , TK > IntoIterator for Forest < 'i , I , P , TK >/
//@  type Item
//@  type IntoIter
//@  fn into_iter ret=r
//@  |         ensures r.v_forest() == self, r.v_next() == 0, // [C03]
//@end

//@impl GSS /^impl < 'i , I , P , TK > Forest < 'i , I , P , TK >/ has=iter
//@  fn iter ret=r
//@  |         ensures r.v_forest() == self, r.v_next() == 0, // [C03]
//@end

// vstd attaches its own (prophetic) iterator protocol to every `impl Iterator`.  These two iterators do not opt
// in (obeys_prophetic_iter_laws == false); what they do is stated directly on `next` below.
impl<'i, I: Input + ?Sized, P, TK: Copy> vstd::std_specs::iter::IteratorSpecImpl for ForestIntoIter<'i, I, P, TK> {
    open spec fn obeys_prophetic_iter_laws(&self) -> bool { false }
    open spec fn remaining(&self) -> Seq<Tree<'i, I, P, TK>> { Seq::empty() }
    open spec fn will_return_none(&self) -> bool { false }
    open spec fn decrease(&self) -> Option<nat> { None }
    open spec fn peek(&self, i: int) -> Option<Tree<'i, I, P, TK>> { None }
}
impl<'i, 'f, I: Input + ?Sized, P, TK: Copy> vstd::std_specs::iter::IteratorSpecImpl for ForestIterator<'i, 'f, I, P, TK> {
    open spec fn obeys_prophetic_iter_laws(&self) -> bool { false }
    open spec fn remaining(&self) -> Seq<Tree<'i, I, P, TK>> { Seq::empty() }
    open spec fn will_return_none(&self) -> bool { false }
    open spec fn decrease(&self) -> Option<nat> { None }
    open spec fn peek(&self, i: int) -> Option<Tree<'i, I, P, TK>> { None }
}

// C03 "enumerating the forest by iteration yields each derivation tree exactly once": next() returns
// get_tree(cursor) and advances the cursor iff that is Some; so iteration yields tree 0, 1, .., total-1 and
// then None for ever (the cursor stays put once get_tree says None).
//@impl GSS /^impl < 'i , I , P , TK > Iterator for ForestIntoIter < 'i , I , P , TK >/
//@  type Item
//@  fn next ret=r
//@  |         ensures
//@  |             old(self).v_forest().tree_at(old(self).v_next() as int, r), // [C03]
//@  |             final(self).v_forest() == old(self).v_forest(), // [C03]
//@  |             final(self).v_next() == if r is Some { old(self).v_next() + 1 } else { old(self).v_next() as int }, // [C03]
//@  before 1 "self.tree_idx += 1;"
//@  |             proof { assume(self.tree_idx < usize::MAX); }
//@end

//@impl GSS /^impl < 'i , I , P , TK > Iterator for ForestIterator < 'i , '_ , I , P , TK >/
//@  type Item
//@  fn next ret=r
//@  |         ensures
//@  |             old(self).v_forest().tree_at(old(self).v_next() as int, r), // [C03]
//@  |             final(self).v_forest() == old(self).v_forest(), // [C03]
//@  |             final(self).v_next() == if r is Some { old(self).v_next() + 1 } else { old(self).v_next() as int }, // [C03]
//@  before 1 "self.tree_idx += 1;"
//@  |             proof { assume(self.tree_idx < usize::MAX); }
//@end

/// Whole-forest reading of the three contracts above, for any forest value: the indexes below total() are
/// exactly those with a tree, and two different indexes never give the same (root, residual) pair.
pub proof fn lemma_forest_enumeration<'i, I: Input + ?Sized, P, TK: Copy>(f: Forest<'i, I, P, TK>, i1: int, i2: int)
    requires 0 <= i1, 0 <= i2,
    ensures
        (locate(f.roots(), i1, 0) is None) <==> i1 >= f.total(),
        locate(f.roots(), i1, 0) is Some && locate(f.roots(), i1, 0) == locate(f.roots(), i2, 0) ==> i1 == i2,
{
    lemma_locate(f.roots(), i1, i1, 0);
    lemma_locate(f.roots(), i2, i2, 0);
    if locate(f.roots(), i1, 0) is Some {
        let (k, j) = locate(f.roots(), i1, 0)->0;
        lemma_sum_sol_monotone(f.roots(), k + 1, f.roots().len() as int);
    }
}

} // verus!
fn main() {}
