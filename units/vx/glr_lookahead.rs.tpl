// Unit glr_lookahead: GlrParser::find_lookaheads (rustemo/src/glr/parser.rs) -- the GLR counterpart of LRParser::next_token:
// which tokens a GSS head is given as lookaheads (C06 "a GLR parser follows each of them"), when the layout parser is tried,
// when the synthetic STOP of partial parsing is produced (C02/C12), and that the search TERMINATES (C15: the layout parser is
// tried at most once per head).  R-LIFT glr_lookaheads_block: the body of find_lookaheads after its first statement
// `let head = gss.head_mut(head);` (GssGraph wraps a petgraph Graph, a type this unit cannot name).  The lexer call is R-XEXPR'd
// (Box<dyn Iterator>), the RefCell access to the layout parser too; the disambiguation statement inside is the one proved in
// unit lookahead (its postcondition is re-proved here from the same specification).
#![feature(allocator_api)]
use vstd::prelude::*;
use std::alloc::Allocator;
use std::marker::PhantomData;
use std::cell::RefCell;
use std::rc::Rc;
use std::fmt::Debug;
use std::ops::{Index, Range};
use std::borrow::ToOwned;

//@file POS rustemo/src/position.rs
//@file INP rustemo/src/input.rs
//@file PAR rustemo/src/parser.rs
//@file CTX rustemo/src/context.rs
//@file LEX rustemo/src/lexer.rs
//@file BLD rustemo/src/builder.rs
//@file LRB rustemo/src/lr/builder.rs
//@file LRP rustemo/src/lr/parser.rs
//@file ERR rustemo/src/error.rs

// The error type is only passed through (`?`): its real definition is kept outside verus!{} and declared opaque.
//@allow external_type_specification Error: real definition outside verus!{}, opaque (values are only passed through by `?`)
//@allow external_body Error: opaque type
//@struct ERR ParseError derive=Debug
//@end
//@enum ERR Error derive=Debug
//@end
verus! {

#[verifier::external_type_specification]
#[verifier::external_body]
pub struct ExError(Error);

// std::cell::RefCell is the type of one field of LRParser that the range never touches (the caller borrows it): opaque.
//@allow external_type_specification RefCell: opaque std type of the field LRParser::builder, which the lifted range does not read
//@allow external_body RefCell: opaque type
//@allow accept_recursive_types RefCell<T> holds a T (std type, opaque here)
#[verifier::accept_recursive_types(T)]
#[verifier::external_type_specification]
#[verifier::external_body]
pub struct ExRefCell<T: ?Sized>(RefCell<T>);

//@allow assume_specification Option::<&T>::copied returns the pointed-to value (std dependency)
pub assume_specification<'a, T: Copy> [Option::<&'a T>::copied] (o: Option<&'a T>) -> (r: Option<T>)
    ensures r == (match o { Some(x) => Some(*x), None => None });

//@type ERR Result

//@struct POS LineColumn derive=Clone,Copy,PartialEq,Eq
//@end
//@struct POS Position derive=Clone,Copy,PartialEq,Eq
//@end
//@struct POS SourceSpan derive=Clone,Copy,PartialEq,Eq
//@end
//@allow external_body SourceSpan's Debug::fmt: formatting code (write!), body dropped; present only so that the error types keep their derived Debug
//@impl POS /^impl Debug for SourceSpan/
//@  fn fmt xbody
//@end

//@trait INP Input methods=len,position_after,slice
//@  raw
//@  |     spec fn v_after(&self, p: Position) -> Position;
//@  |     spec fn v_len(&self) -> usize;
//@  fn len ret=r attr=verifier::when_used_as_spec(v_len)
//@  |         ensures r == self.v_len(),
//@  fn position_after ret=r
//@  |         ensures r == self.v_after(position),
//@  fn slice ret=r xbody
//@  |         // what the implementations need: for str the start must lie inside the input (`s.slice(len..len)` panics for a non-empty s:
//@  |         // bounded harness str_slice_no_panic assumes the same), for [T] the range must lie inside the slice
//@  |         requires range.start <= range.end, range.end <= self.v_len(), range.start < self.v_len(),
//@end

//@trait PAR State methods=default_layout
//@  raw
//@  |     spec fn v_default_layout() -> Option<Self>;
//@  fn default_layout ret=r
//@  |         ensures r == Self::v_default_layout(),
//@end

//@struct LEX Token
//@end

//@trait CTX Context nosuper
//@  raw
//@  |     spec fn v_state(&self) -> S;
//@  |     spec fn v_position(&self) -> Position;
//@  |     spec fn v_span(&self) -> SourceSpan;
//@  |     spec fn v_layout_ahead(&self) -> Option<&'i I>;
//@  fn state ret=r
//@  |         ensures r == self.v_state(),
//@  fn set_state
//@  |         ensures final(self).v_state() == state,
//@  |             final(self).v_position() == old(self).v_position(),
//@  |             final(self).v_span() == old(self).v_span(),
//@  |             final(self).v_layout_ahead() == old(self).v_layout_ahead(),
//@  fn position ret=r
//@  |         ensures r == self.v_position(),
//@  fn set_position
//@  |         ensures final(self).v_position() == position,
//@  |             final(self).v_state() == old(self).v_state(),
//@  |             final(self).v_span() == old(self).v_span(),
//@  |             final(self).v_layout_ahead() == old(self).v_layout_ahead(),
//@  fn span ret=r
//@  |         ensures r == self.v_span(),
//@  fn set_span
//@  |         ensures final(self).v_span() == span,
//@  |             final(self).v_state() == old(self).v_state(),
//@  |             final(self).v_position() == old(self).v_position(),
//@  |             final(self).v_layout_ahead() == old(self).v_layout_ahead(),
//@  fn layout_ahead ret=r
//@  |         ensures r == self.v_layout_ahead(),
//@  fn set_layout_ahead
//@  |         ensures final(self).v_layout_ahead() == layout,
//@  |             final(self).v_state() == old(self).v_state(),
//@  |             final(self).v_position() == old(self).v_position(),
//@  |             final(self).v_span() == old(self).v_span(),
//@end

// The lexer is only used by next_token (not verified here): the trait keeps its associated type.
//@trait LEX Lexer methods=-
//@  type Input
//@end

// ---- builders: the contract of the two traits the driver talks to --------------------------------------------------------
//@include builder_traits.inc

//@struct LRB SliceBuilder
//@end
// SliceBuilder's trait impls (bodies verified in unit lr_builder against the same shared contract; here only their existence
// matters: the layout parser is an LRParser over a SliceBuilder)
//@allow external_body SliceBuilder's Builder/LRBuilder methods: bodies verified in unit lr_builder, not here
//@impl LRB /^impl < 'i , I > Builder for SliceBuilder/
//@  raw
//@  |     open spec fn v_tracks(&self) -> bool { false }
//@  |     open spec fn v_depth(&self) -> nat { 0 }
//@  type Output
//@  fn get_result xbody
//@end
//@impl LRB /^impl < 'i , I , C , S , P , TK > LRBuilder < 'i , I , C , S , P , TK > for SliceBuilder/
//@  raw
//@  |     uninterp spec fn reduce_pre(&self, context: &C, prod_len: usize) -> bool;
//@  fn shift_action xbody
//@  fn reduce_action xbody
//@end

// ---- the table interface ------------------------------------------------------------------------------------------------------
//@enum LRP Action derive=Copy,Clone
//@end

//@trait LRP ParserDefinition methods=actions,goto,expected_token_kinds,longest_match,grammar_order
//@  raw
//@  |     spec fn v_longest_match() -> bool;
//@  |     spec fn v_grammar_order() -> bool;
//@  |     spec fn v_actions(&self, state: S, token: TK) -> Seq<Action<S, P>>;
//@  |     spec fn v_goto(&self, state: S, nonterm: NTK) -> S;
//@  |     spec fn v_expected(&self, state: S) -> Seq<(TK, bool)>;
//@  |     /// a depth function for the automaton (ghost; see table_ok)
//@  |     spec fn v_depth(&self, state: S) -> nat;
//@  fn actions ret=r
//@  |         ensures r@ == self.v_actions(state, token),
//@  fn goto ret=r
//@  |         ensures r == self.v_goto(state, nonterm),
//@  fn expected_token_kinds ret=r
//@  |         ensures r@ == self.v_expected(state),
//@  fn longest_match ret=r
//@  |         ensures r == Self::v_longest_match(),
//@  fn grammar_order ret=r
//@  |         ensures r == Self::v_grammar_order(),
//@end

/// "LR action lookup takes the first action of the cell" (C15); an empty cell is an error
pub open spec fn first_action<S, P, TK, NTK, D: ParserDefinition<S, P, TK, NTK>>(d: &D, s: S, t: TK) -> Action<S, P> {
    if d.v_actions(s, t).len() > 0 { d.v_actions(s, t)[0] } else { Action::Error }
}

/// What the driver needs from a table so that it never pops more than it pushed: the automaton admits a *depth function*
/// -- depth(start) = 0 is required separately; a transition (SHIFT or GOTO) raises the depth by at most one; a state
/// reduces at most depth(state) symbols; ACCEPT is only taken with something on the stack.  Every LR(0)-based automaton
/// has one: depth(s) = the largest dot position among the items of s (DESIGN.md section 3, C02).  ASSUMED of the
/// generated table (the table generator is not verified against it).
pub open spec fn table_ok<S, P, TK, NTK, D: ParserDefinition<S, P, TK, NTK>>(d: &D) -> bool {
    &&& forall|s: S, t: TK| (#[trigger] first_action::<S, P, TK, NTK, D>(d, s, t)) matches Action::Reduce(_, len) ==> len <= d.v_depth(s)
    &&& forall|s: S, t: TK| (#[trigger] first_action::<S, P, TK, NTK, D>(d, s, t)) matches Action::Shift(s2) ==> d.v_depth(s2) <= d.v_depth(s) + 1
    &&& forall|s: S, nt: NTK| d.v_depth(#[trigger] d.v_goto(s, nt)) <= d.v_depth(s) + 1
    &&& forall|s: S, t: TK| (#[trigger] first_action::<S, P, TK, NTK, D>(d, s, t)) is Accept ==> d.v_depth(s) >= 1
}

//@trait PAR Parser methods=parse_with_context
//@  type Output
//@  fn parse_with_context
//@  |         ensures final(context).v_position().pos >= old(context).v_position().pos,
//@end

//@struct LRP LRParser attr=verifier::reject_recursive_types(I) attr=verifier::reject_recursive_types(C) attr=verifier::reject_recursive_types(S) attr=verifier::reject_recursive_types(TK) attr=verifier::reject_recursive_types(L)
//@end
// <LRParser as Parser>::parse_with_context as a CALLEE (the nested parse of the layout parser inside next_token): external here,
// assumed of what it does to the context: only that the position never moves backwards.  (Its loop is verified below as driver_block.)
//@allow external_body <LRParser as Parser>::parse_with_context as the callee of next_token's layout parse: body not verified at this call (the lifted range driver_block is its loop); ASSUMED of its effect on the context: only that it never moves the position backwards
//@impl LRP /^impl < 'i , C , S , P , I , TK , NTK , D , L , B > Parser < 'i , I , C , S , TK > for LRParser/
//@  type Output
//@  fn parse_with_context xbody
//@end


/// slicing the input at an empty range at the current position is allowed (true of every position a lexer leaves the context at;
/// ASSUMED of the lexer: for str it needs a char boundary inside the input)
pub uninterp spec fn empty_slice_ok<I: Input + ?Sized>(input: &I, pos: usize) -> bool;
//@allow axiom fn empty_slice_ok means index_req for the empty range at that offset (definition of the uninterpreted predicate)
pub broadcast axiom fn axiom_empty_slice_ok<I: Input + ?Sized>(input: &I, pos: usize)
    ensures #[trigger] empty_slice_ok(input, pos) ==> vstd::std_specs::core::IndexSpec::index_req(input, &Range { start: pos, end: pos });


//@file GSS rustemo/src/glr/gss.rs
//@file GLP rustemo/src/glr/parser.rs

// ---- the GLR context -----------------------------------------------------------------------------------------------------------
//@struct GSS GssHead
//@end
impl<'i, I: Input + ?Sized, S, TK> GssHead<'i, I, S, TK> {
    pub closed spec fn g_state(&self) -> S { self.state }
    pub closed spec fn g_position(&self) -> Position { self.position }
    pub closed spec fn g_span(&self) -> SourceSpan { self.span }
    pub closed spec fn g_layout_ahead(&self) -> Option<&'i I> { self.layout_ahead }
}
//@impl GSS /^impl < 'i , S , I , TK > Context < 'i , I , S , TK > for GssHead < 'i , I , S , TK >/
//@  raw
//@  |     open spec fn v_state(&self) -> S { self.g_state() }
//@  |     open spec fn v_position(&self) -> Position { self.g_position() }
//@  |     open spec fn v_span(&self) -> SourceSpan { self.g_span() }
//@  |     open spec fn v_layout_ahead(&self) -> Option<&'i I> { self.g_layout_ahead() }
//@  fn state
//@  fn set_state
//@  fn position
//@  fn set_position
//@  fn span
//@  fn set_span
//@  fn layout_ahead
//@  fn set_layout_ahead
//@end

//@type GLP Content
//@type GLP LayoutParser
//@struct GLP GlrParser attr=verifier::reject_recursive_types(I) attr=verifier::reject_recursive_types(S) attr=verifier::reject_recursive_types(TK) attr=verifier::reject_recursive_types(L) attr=verifier::reject_recursive_types(P) attr=verifier::reject_recursive_types(NTK) attr=verifier::reject_recursive_types(D)
//@end

// ---- longest match / grammar order (same specification text as unit lookahead) ---------------------------------------------------
//@include lookahead_specs.inc

/// what the lexer returns for a head, an input and a list of expected kinds (the lexer call is external here: a `Box<dyn Iterator>`)
pub uninterp spec fn glr_lexed<'i, S: State, L: Lexer<'i, GssHead<'i, I, S, TK>, S, TK, Input = I>, P, TK: Default, NTK, D: ParserDefinition<S, P, TK, NTK> + 'static, I: Input + ?Sized, B>(parser: &GlrParser<'i, S, L, P, TK, NTK, D, I, B>, head: GssHead<'i, I, S, TK>, input: &'i I, expected: Seq<(TK, bool)>) -> Seq<Token<'i, I, TK>>;

pub assume_specification<T, A: Allocator, F: FnMut(&T) -> bool> [Vec::<T, A>::retain] (v: &mut Vec<T, A>, f: F)
    requires forall|x: &T| #[trigger] f.requires((x,)),
    ensures forall|p: spec_fn(T) -> bool| (forall|x: &T, b: bool| #[trigger] f.ensures((x,), b) ==> b == p(*x))
        ==> final(v)@ == #[trigger] old(v)@.filter(p);

//@lift GLA glr_lookaheads_block
//@allow external_body xexpr_glr_lex: `self.lexer.next_tokens(head, input, expected_tokens.clone()).collect()` (Box<dyn Iterator>) replaced by an external function; ASSUMED: it leaves the head's state and span alone
//@allow external_body xexpr_glr_layout_parser: `self.layout_parser.borrow_mut().as_ref()` (RefCell) replaced by an external function returning the layout parser, if any
//@allow external_body xexpr_longest_len: the max_by_key expression (see unit lookahead)
//@allow external_body xexpr_stop_expected: `expected_tokens.iter().any(|tk| tk.0 == stop_kind)`: result unspecified
//@allow external_body xexpr_stop_vec: the `vec![Token { .. &input[0..0] .. }]` expression (vec! macro and slicing of a generic input): result unspecified beyond its length
//@allow assume_specification Vec::retain / Vec::truncate (std dependency)
//@impl GLA /^impl < 'i , S , L , P , TK , NTK , D , I , B > GlrParser < 'i , S , L , P , TK , NTK , D , I , B >/
//@  fn glr_lookaheads_block ret=r allclosures
//@  |         requires
//@  |             S::v_default_layout() is Some,
//@  |             empty_slice_ok(input, 0),
//@  |         ensures
//@  |             final(head).v_state() == old(head).v_state(), // [C02, C12] the content state is restored around a layout parse
//@  |             // [C06] "a GLR parser follows each of them": when the lexer finds candidates at the head's position, the lookaheads are
//@  |             // those candidates after the enabled strategies -- longest match, then grammar order -- and nothing else is dropped
//@  |             ({ let ts = glr_lexed(self, *old(head), input, self.definition.v_expected(old(head).v_state()));
//@  |                ts.len() > 0 ==> r@ == glr_disamb(ts, D::v_longest_match(), D::v_grammar_order()) }), // [C06]
//@  |             // in every case the result is the disambiguation of what the lexer returned in some round, or the lone synthetic STOP, or empty
//@  |             r@.len() <= 1 || exists|ts: Seq<Token<'i, I, TK>>| ts.len() > 0 && r@ == glr_disamb(ts, D::v_longest_match(), D::v_grammar_order()), // [C06]
//@  xexpr xexpr_glr_lex(self, head, input, &expected_tokens) = self.lexer.next_tokens(head, input, expected_tokens.clone()).collect()
//@  xexpr xexpr_glr_layout_parser(self) = self.layout_parser.borrow_mut().as_ref()
//@  xexpr xexpr_longest_len(&tokens) = tokens.iter().max_by_key(|token| token.value.len()).unwrap().value.len()
//@  xexpr xexpr_stop_expected(&expected_tokens, stop_kind) = expected_tokens.iter().any(|tk| tk.0 == stop_kind)
//@  cspec_self retain bool
//@  before 1 "tokens.retain("
//@  |                        proof { lemma_keep_longest(tokens@, longest_len); lemma_keep_longest_sound(tokens@, longest_len); }
//@  after 1 ".collect();"
//@  |            let ghost lx = tokens@;
//@  |            let ghost first_round = layout_parsing;
//@  before 1 "return tokens;"
//@  |                assert(tokens@ == glr_disamb(lx, D::v_longest_match(), D::v_grammar_order())); // [C06]
//@  before 1 "loop {"
//@  |         broadcast use axiom_empty_slice_ok;
//@  |         let ghost st0 = head.v_state();
//@  loop 1
//@  |             invariant
//@  |                 head.v_state() == st0, st0 == old(head).v_state(),
//@  |                 S::v_default_layout() is Some,
//@  |                 expected_tokens@ == self.definition.v_expected(st0),
//@  |                 // the first round looks at the head as it was handed in; later rounds happen only because that round found nothing
//@  |                 layout_parsing ==> *head == *old(head),
//@  |                 !layout_parsing ==> glr_lexed(self, *old(head), input, expected_tokens@).len() == 0,
//@  |             // [C15] the layout parser is tried at most once per head: the search ends after at most two rounds
//@  |             ensures !layout_parsing, glr_lexed(self, *old(head), input, expected_tokens@).len() == 0,
//@  |             decreases (if layout_parsing { 1int } else { 0int }),
//@  before 1 "continue;"
//@  |                             // [C14] the layout stored in front of the next token is what the layout parser returned, and the search goes
//@  |                             // round again only because something was consumed
//@  |                             assert(head.v_layout_ahead() == Some(layout) && layout.v_len() > 0 && head.v_state() == st0); // [C14]
//@  before 1 "let stop_kind"
//@  |         // [C02, C12] "no token" (the synthetic STOP of partial parsing, or the error) is decided only after the layout parser had its turn
//@  |         assert(!layout_parsing); // [C02, C12]
//@end
//@xexprfn xexpr_glr_lex nobody
//@  | fn xexpr_glr_lex<'i, S: State, L: Lexer<'i, GssHead<'i, I, S, TK>, S, TK, Input = I>, P, TK: Default, NTK, D: ParserDefinition<S, P, TK, NTK> + 'static, I: Input + ?Sized, B>(parser: &GlrParser<'i, S, L, P, TK, NTK, D, I, B>, head: &mut GssHead<'i, I, S, TK>, input: &'i I, expected: &Vec<(TK, bool)>) -> (r: Vec<Token<'i, I, TK>>)
//@  |     ensures final(head).v_state() == old(head).v_state(), final(head).v_span() == old(head).v_span(),
//@  |         r@ == glr_lexed(parser, *old(head), input, expected@),
//@end
//@xexprfn xexpr_glr_layout_parser nobody
//@  | fn xexpr_glr_layout_parser<'a, 'i, S: State, L: Lexer<'i, GssHead<'i, I, S, TK>, S, TK, Input = I>, P, TK: Default, NTK, D: ParserDefinition<S, P, TK, NTK> + 'static, I: Input + ?Sized, B>(parser: &'a GlrParser<'i, S, L, P, TK, NTK, D, I, B>) -> (r: Option<&'a LRParser<'i, GssHead<'i, I, S, TK>, S, P, TK, NTK, D, L, SliceBuilder<'i, I>, I>>)
//@end
//@xexprfn xexpr_longest_len nobody
//@  | fn xexpr_longest_len<'i, I: Input + ?Sized, TK>(tokens: &Vec<Token<'i, I, TK>>) -> (r: usize)
//@  |     requires tokens@.len() > 0,
//@  |     ensures is_longest(tokens@, r),
//@end
//@xexprfn xexpr_stop_expected nobody
//@  | fn xexpr_stop_expected<TK: PartialEq>(expected: &Vec<(TK, bool)>, stop_kind: TK) -> (r: bool)
//@end

} // verus!
fn main() {}
