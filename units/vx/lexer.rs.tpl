// Unit lexer: TokenIterator::next (rustemo/src/lexer.rs) -- try-in-order / finish flag (C06), token span (C13), panic freedom + termination (C15).
use vstd::prelude::*;
use std::ops::{RangeFrom, Index};
use std::slice::SliceIndex;
use vstd::std_specs::core::IndexSpec;
verus! {

//@file POS rustemo/src/position.rs
//@file INP rustemo/src/input.rs
//@file LEX rustemo/src/lexer.rs

//@struct POS LineColumn derive=Clone,Copy
//@end
//@struct POS Position derive=Clone,Copy
//@end
//@struct POS SourceSpan derive=Clone,Copy
//@end

/// Assumed contract on a std dependency: slicing a str is a deterministic function of (s, index).  The
/// trait-level precondition vstd puts on Index::index (index_req: in range, on char boundaries) is still enforced.
pub uninterp spec fn str_index<I: SliceIndex<str>>(s: &str, idx: I) -> &<I as SliceIndex<str>>::Output;
pub assume_specification<I: SliceIndex<str>> [ <str as Index<I>>::index ] (s: &str, idx: I) -> (r: &<I as SliceIndex<str>>::Output)
    ensures r == str_index(s, idx);

/// what `position_after` returns (its body is adapter code, checked by Kani harness str_position_after_*)
pub uninterp spec fn v_position_after(s: &str, p: Position) -> Position;

//@allow assume_specification <str as Index<I>>::index is deterministic (std dependency)
//@allow external_body TokenRecognizer::recognize default body is panic!(); <str as Input>::position_after is adapter code (Kani: str_position_after_*)
//@trait INP Input nosuper methods=position_after,span_from
//@  raw
//@  |     spec fn v_after(&self, p: Position) -> Position;
//@  fn position_after ret=r
//@  |         ensures r == self.v_after(position),
//@  fn span_from ret=r
//@  |         ensures r.start == position, r.end == self.v_after(position), // [C13]
//@end

//@impl INP /^impl Input for str/
//@  raw
//@  |     open spec fn v_after(&self, p: Position) -> Position { v_position_after(self, p) }
//@  fn position_after xbody
//@end

//@trait LEX TokenRecognizer
//@  raw
//@  |     spec fn v_recognize(&self, input: &'i str) -> Option<&'i str>;
//@  fn recognize ret=r xbody
//@  |         ensures r == self.v_recognize(_input),
//@end

//@struct LEX Token
//@end
//@struct LEX TokenIterator
//@end

impl<'i, TR, TK> TokenIterator<'i, TR, TK> {
    pub closed spec fn v_input(&self) -> &'i str { self.input }
    pub closed spec fn v_position(&self) -> Position { self.position }
    pub closed spec fn v_recs(&self) -> Seq<(&'static TR, TK, bool)> { self.token_recognizers@ }
    pub closed spec fn v_index(&self) -> usize { self.index }
    pub closed spec fn v_finish(&self) -> bool { self.finish }
    /// slicing the input at the lexing position is allowed (char boundary inside the input): established by `new`
    #[verifier::type_invariant]
    pub closed spec fn inv(&self) -> bool {
        self.input.index_req(&RangeFrom { start: self.position.pos }) && self.index <= self.token_recognizers@.len()
    }
}

impl<'i, TR, TK> TokenIterator<'i, TR, TK> {
    /// the text the recognizers are given: input[position.pos..]
    pub open spec fn tail(&self) -> &'i str { str_index(self.v_input(), RangeFrom { start: self.v_position().pos }) }
}

/// C06 "try in order": index of the first recognizer at or after `from` that recognises `tail`; recs.len() if none.
pub open spec fn first_match<'i, TR: TokenRecognizer<'i>, TK>(recs: Seq<(&'static TR, TK, bool)>, tail: &'i str, from: int) -> int
    decreases recs.len() - from,
{
    if from < 0 || from >= recs.len() { recs.len() as int }
    else if recs[from].0.v_recognize(tail) is Some { from }
    else { first_match(recs, tail, from + 1) }
}

//@impl LEX /^impl < 'i , TR , TK > TokenIterator < 'i , TR , TK >/
//@  fn new ret=r
//@  |         requires input.index_req(&RangeFrom { start: position.pos }),
//@  |         ensures r.v_input() == input, r.v_position() == position, r.v_recs() == token_recognizers@, r.v_index() == 0, !r.v_finish(),
//@end

impl<'i, TK, TR> vstd::std_specs::iter::IteratorSpecImpl for TokenIterator<'i, TR, TK> where TR: TokenRecognizer<'i>, TK: Copy {
    open spec fn obeys_prophetic_iter_laws(&self) -> bool { false }
    open spec fn remaining(&self) -> Seq<Token<'i, str, TK>> { Seq::empty() }
    open spec fn will_return_none(&self) -> bool { false }
    open spec fn decrease(&self) -> Option<nat> { None }
    open spec fn peek(&self, i: int) -> Option<Token<'i, str, TK>> { None }
}

//@impl LEX /^impl < 'i , TK , TR > Iterator for TokenIterator < 'i , TR , TK >/
//@  type Item
//@  fn next ret=r attr=verifier::loop_isolation(false)
//@  |         ensures
//@  |             final(self).v_input() == old(self).v_input(),
//@  |             final(self).v_position() == old(self).v_position(),
//@  |             final(self).v_recs() == old(self).v_recs(),
//@  |             ({
//@  |                 let recs = old(self).v_recs();
//@  |                 let j = first_match(recs, old(self).tail(), old(self).v_index() as int);
//@  |                 if old(self).v_finish() || j >= recs.len() {
//@  |                     // stop after a matched token flagged finish; or nothing left matches
//@  |                     &&& r is None // [C06]
//@  |                     &&& final(self).v_finish() == old(self).v_finish()
//@  |                     &&& final(self).v_index() == (if old(self).v_finish() { old(self).v_index() as int } else { recs.len() as int })
//@  |                 } else {
//@  |                     &&& r is Some
//@  |                     &&& (r->0).kind == recs[j].1 // [C06]
//@  |                     &&& Some((r->0).value) == recs[j].0.v_recognize(old(self).tail()) // [C06,C13]
//@  |                     &&& (r->0).span.start == old(self).v_position() // [C13]
//@  |                     &&& (r->0).span.end == v_position_after((r->0).value, old(self).v_position()) // [C13]
//@  |                     &&& final(self).v_index() == j + 1 // [C06]
//@  |                     &&& final(self).v_finish() == recs[j].2 // [C06]
//@  |                 }
//@  |             }),
//@  before 1 "loop {"
//@  |         proof { use_type_invariant(&*self); }
//@  loop 1
//@  |             invariant
//@  |                 self.v_index() <= self.v_recs().len(),
//@  |                 self.v_input() == old(self).v_input(),
//@  |                 self.v_position() == old(self).v_position(),
//@  |                 self.v_recs() == old(self).v_recs(),
//@  |                 self.v_finish() == old(self).v_finish(),
//@  |                 old(self).v_index() <= self.v_index(),
//@  |                 old(self).v_finish() ==> self.v_index() == old(self).v_index(),
//@  |                 first_match(self.v_recs(), self.tail(), old(self).v_index() as int) == first_match(self.v_recs(), self.tail(), self.v_index() as int),
//@  |             decreases self.v_recs().len() - self.v_index(),
//@  after 1 "loop {"
//@  |             proof { use_type_invariant(&*self); }
//@end

} // verus!
fn main() {}
