// Unit lexer: TokenIterator::next (rustemo/src/lexer.rs) -- try-in-order / finish flag (C06), token span (C13), panic freedom + termination (C15).
use vstd::prelude::*;
use std::ops::{RangeFrom, Range, Index};
use std::marker::PhantomData;
use std::slice::SliceIndex;
use vstd::std_specs::core::IndexSpec;
verus! {

//@file POS rustemo/src/position.rs
//@file INP rustemo/src/input.rs
//@file LEX rustemo/src/lexer.rs
//@file PAR rustemo/src/parser.rs
//@file CTX rustemo/src/context.rs

//@struct POS LineColumn derive=Clone,Copy
//@end
//@struct POS Position derive=Clone,Copy
//@end
//@struct POS SourceSpan derive=Clone,Copy
//@end

/// Assumed contract on a std dependency: slicing a str is a deterministic function of (s, index).  The
/// trait-level precondition vstd puts on Index::index (index_req: in range, on char boundaries) is still enforced.
pub uninterp spec fn str_index<I: SliceIndex<str>>(s: &str, idx: I) -> &<I as SliceIndex<str>>::Output;
pub assume_specification<I: SliceIndex<str>> [ <str as Index<I>>::index ] (s: &str, idx: I) -> (r: &<I as SliceIndex<str>>::Output)
    ensures r == str_index(s, idx);

/// what `position_after` returns (its body is adapter code, checked by Kani harness str_position_after_*)
pub uninterp spec fn v_position_after(s: &str, p: Position) -> Position;

//@allow assume_specification <str as Index<I>>::index is deterministic (std dependency)
//@allow external_body TokenRecognizer::recognize default body is panic!(); <str as Input>::position_after is adapter code (Kani: str_position_after_*)
//@trait INP Input nosuper methods=position_after,span_from
//@  raw
//@  |     spec fn v_after(&self, p: Position) -> Position;
//@  |     /// the end offset is representable (bytes: position + length does not overflow; str: checked by Kani, no condition here)
//@  |     spec fn after_ok(&self, p: Position) -> bool;
//@  fn position_after ret=r
//@  |         requires self.after_ok(position),
//@  |         ensures r == self.v_after(position),
//@  fn span_from ret=r
//@  |         requires self.after_ok(position),
//@  |         ensures r.start == position, r.end == self.v_after(position), // [C13]
//@end

// <[u8] as Input>::position_after: bytes have no lines: the offset moves by the length, line/column stay absent (C13)
//@impl INP /^impl Input for \[ u8 \]/
//@  raw
//@  |     open spec fn v_after(&self, p: Position) -> Position { Position { pos: (p.pos + self@.len()) as usize, line_col: None } }
//@  |     open spec fn after_ok(&self, p: Position) -> bool { p.pos + self@.len() <= usize::MAX }
//@  fn position_after ret=r
//@  |         ensures r.pos == position.pos + self@.len(), r.line_col is None, // [C13]
//@end

//@impl INP /^impl Input for str/
//@  raw
//@  |     open spec fn v_after(&self, p: Position) -> Position { v_position_after(self, p) }
//@  |     open spec fn after_ok(&self, p: Position) -> bool { true }
//@  fn position_after xbody
//@end

/// what a recognizer returns for a text (TokenRecognizer::recognize is user/generated code: its result is an uninterpreted,
/// deterministic function of the recognizer and the text)
pub uninterp spec fn rec_result<'i, TR: ?Sized>(r: &TR, input: &'i str) -> Option<&'i str>;
//@trait LEX TokenRecognizer
//@  fn recognize ret=r xbody
//@  |         ensures r == rec_result(self, _input),
//@end

//@struct LEX Token
//@end
//@struct LEX TokenIterator
//@end

impl<'i, TR, TK> TokenIterator<'i, TR, TK> {
    pub closed spec fn v_input(&self) -> &'i str { self.input }
    pub closed spec fn v_position(&self) -> Position { self.position }
    pub closed spec fn v_recs(&self) -> Seq<(&'static TR, TK, bool)> { self.token_recognizers@ }
    pub closed spec fn v_index(&self) -> usize { self.index }
    pub closed spec fn v_finish(&self) -> bool { self.finish }
    pub closed spec fn v_matched(&self) -> bool { self.matched }
    /// slicing the input at the lexing position is allowed (char boundary inside the input): established by `new`
    #[verifier::type_invariant]
    pub closed spec fn inv(&self) -> bool {
        self.input.index_req(&RangeFrom { start: self.position.pos }) && self.index <= self.token_recognizers@.len()
    }
}

impl<'i, TR, TK> TokenIterator<'i, TR, TK> {
    /// the text the recognizers are given: input[position.pos..]
    pub open spec fn tail(&self) -> &'i str { str_index(self.v_input(), RangeFrom { start: self.v_position().pos }) }
    /// the iterator's bookkeeping agrees with its cursor: `matched` -- something among the entries already tried matched;
    /// `finish` -- a cut lies behind the cursor
    pub open spec fn book_ok(&self) -> bool {
        &&& self.v_matched() == any_hit(self.v_recs(), self.tail(), self.v_index() as int)
        &&& self.v_finish() == !tried(self.v_recs(), self.tail(), self.v_index() as int)
    }
}

// ---- specification of the search, from the text of C06 and docs/src/lexers.md -------------------------------------------
// "Expected tokens are sorted by priority.  A first match in a priority group will reduce further matches only to that
// group."  "Most specific match: ... When the first string match succeeds, no further matches are tried."  The table
// marks where such a cut can happen with the finish flag of an entry (LRState::sorted_terminals: "The finish flag, if
// true, indicates that if we already have terminals that matched at this location no further terminals should be tried").

/// recognizer j recognises the text at the cursor
pub open spec fn hit<'i, TR, TK>(recs: Seq<(&'static TR, TK, bool)>, tail: &'i str, j: int) -> bool {
    0 <= j < recs.len() && rec_result(recs[j].0, tail) is Some
}
/// some recognizer among the first n recognises it
pub open spec fn any_hit<'i, TR, TK>(recs: Seq<(&'static TR, TK, bool)>, tail: &'i str, n: int) -> bool {
    exists|j: int| 0 <= j < n && hit(recs, tail, j)
}
/// the search is cut after entry k: it is flagged and something has matched so far (itself included)
pub open spec fn cut_after<'i, TR, TK>(recs: Seq<(&'static TR, TK, bool)>, tail: &'i str, k: int) -> bool {
    0 <= k < recs.len() && recs[k].2 && any_hit(recs, tail, k + 1)
}
/// no cut lies before entry i: entry i is still tried
pub open spec fn tried<'i, TR, TK>(recs: Seq<(&'static TR, TK, bool)>, tail: &'i str, i: int) -> bool {
    forall|k: int| 0 <= k < i ==> !cut_after(recs, tail, k)
}
/// the entry whose token `next` returns from cursor i: the first entry at or after i that is tried and matches;
/// recs.len() if there is none
pub open spec fn next_hit<'i, TR, TK>(recs: Seq<(&'static TR, TK, bool)>, tail: &'i str, i: int) -> int
    decreases recs.len() - i,
{
    if i < 0 || i >= recs.len() || !tried(recs, tail, i) { recs.len() as int }
    else if hit(recs, tail, i) { i }
    else { next_hit(recs, tail, i + 1) }
}

/// C06 "highest terminal priority among the matching ones": once an entry has matched, no entry beyond the next flagged
/// entry (the end of its priority group) is ever returned
pub proof fn lemma_no_token_beyond_a_cut<'i, TR, TK>(recs: Seq<(&'static TR, TK, bool)>, tail: &'i str, m: int, f: int, i: int)
    requires hit(recs, tail, m), m <= f < recs.len(), recs[f].2, 0 <= i,
    ensures next_hit(recs, tail, i) <= f || next_hit(recs, tail, i) == recs.len(),
    decreases recs.len() - i,
{
    assert(any_hit(recs, tail, f + 1));
    assert(cut_after(recs, tail, f));
    if i < recs.len() && tried(recs, tail, i) && !hit(recs, tail, i) {
        lemma_no_token_beyond_a_cut(recs, tail, m, f, i + 1);
    }
    if i > f { assert(!tried(recs, tail, i)); }
}

//@impl LEX /^impl < 'i , TR , TK > TokenIterator < 'i , TR , TK >/
//@  fn new ret=r
//@  |         requires input.index_req(&RangeFrom { start: position.pos }),
//@  |         ensures r.v_input() == input, r.v_position() == position, r.v_recs() == token_recognizers@, r.v_index() == 0, !r.v_finish(), !r.v_matched(), r.book_ok(),
//@end

// <TokenIterator as Iterator>::next reaches Verus through R-LIFT token_next_block: its whole body, verbatim, as the inherent
// method `next_body` (a trait method implementation cannot declare `requires`).  TokenIterator is private to lexer.rs and only
// `new` and `next` touch its fields: `new` establishes the precondition `book_ok`, `next_body` preserves it.
//@lift TNB token_next_block
//@impl TNB /^impl < 'i , TK , TR > TokenIterator < 'i , TR , TK >/
//@  fn next_body ret=r attr=verifier::loop_isolation(false)
//@  |         requires old(self).book_ok(),
//@  |         ensures
//@  |             final(self).book_ok(),
//@  |             final(self).v_input() == old(self).v_input(),
//@  |             final(self).v_position() == old(self).v_position(),
//@  |             final(self).v_recs() == old(self).v_recs(),
//@  |             old(self).v_index() <= final(self).v_index(),
//@  |             ({
//@  |                 let recs = old(self).v_recs();
//@  |                 let j = next_hit(recs, old(self).tail(), old(self).v_index() as int);
//@  |                 if j >= recs.len() {
//@  |                     // nothing that is still tried matches: a cut was reached, or the table is exhausted
//@  |                     &&& r is None // [C06]
//@  |                 } else {
//@  |                     &&& r is Some
//@  |                     &&& (r->0).kind == recs[j].1 // [C06]
//@  |                     &&& Some((r->0).value) == rec_result(recs[j].0, old(self).tail()) // [C06,C13]
//@  |                     &&& (r->0).span.start == old(self).v_position() // [C13]
//@  |                     &&& (r->0).span.end == v_position_after((r->0).value, old(self).v_position()) // [C13]
//@  |                     &&& final(self).v_index() == j + 1 // [C06]
//@  |                 }
//@  |             }),
//@  before 1 "loop {"
//@  |         proof { use_type_invariant(&*self); }
//@  |         let ghost recs = self.v_recs();
//@  |         let ghost tl = self.tail();
//@  loop 1
//@  |             invariant
//@  |                 self.v_index() <= self.v_recs().len(),
//@  |                 self.v_input() == old(self).v_input(),
//@  |                 self.v_position() == old(self).v_position(),
//@  |                 self.v_recs() == recs, self.tail() == tl, recs == old(self).v_recs(), tl == old(self).tail(),
//@  |                 old(self).v_index() <= self.v_index(),
//@  |                 self.v_matched() == any_hit(recs, tl, self.v_index() as int),
//@  |                 self.v_finish() == !tried(recs, tl, self.v_index() as int),
//@  |                 next_hit(recs, tl, old(self).v_index() as int) == next_hit(recs, tl, self.v_index() as int),
//@  |             decreases self.v_recs().len() - self.v_index(),
//@  after 1 "loop {"
//@  |             proof { use_type_invariant(&*self); }
//@  |             let ghost i0 = self.v_index() as int;
//@  after 1 "self.finish = *finish && self.matched;"
//@  |                 proof {
//@  |                     // bookkeeping after entry i0 has been tried
//@  |                     assert(any_hit(recs, tl, i0 + 1) == (any_hit(recs, tl, i0) || hit(recs, tl, i0))) by {
//@  |                         if any_hit(recs, tl, i0 + 1) { let j = choose|j: int| 0 <= j < i0 + 1 && hit(recs, tl, j); if j < i0 { assert(any_hit(recs, tl, i0)); } }
//@  |                         if any_hit(recs, tl, i0) { let j = choose|j: int| 0 <= j < i0 && hit(recs, tl, j); assert(0 <= j < i0 + 1 && hit(recs, tl, j)); }
//@  |                         if hit(recs, tl, i0) { assert(0 <= i0 < i0 + 1 && hit(recs, tl, i0)); }
//@  |                     }
//@  |                     assert(tried(recs, tl, i0));
//@  |                     assert(tried(recs, tl, i0 + 1) == !cut_after(recs, tl, i0)) by {
//@  |                         if !cut_after(recs, tl, i0) { assert forall|k: int| 0 <= k < i0 + 1 implies !cut_after(recs, tl, k) by { if k < i0 { } } }
//@  |                     }
//@  |                 }
//@end

// ---- StringLexer::skip (C14 "whitespace skipping sets layout_ahead and advances position") ---------------------------------
// The whitespace-run length (`input[pos..].chars().take_while(|x| x.is_whitespace()).map(|c| c.len_utf8()).sum()`, an adapter
// chain) is R-XEXPR'd: ASSUMED to return a byte length n such that input[pos..pos+n] may be sliced.  What is proved is the
// rest of the real body: a non-empty run is stored as the layout and the position moves to its end; an empty run stores None
// and leaves the position alone; state and span are not touched (what unit lr_driver assumes of the lexer statements).
//@trait PAR State methods=default_layout
//@end
//@trait CTX Context
//@  raw
//@  |     spec fn v_state(&self) -> S;
//@  |     spec fn v_position(&self) -> Position;
//@  |     spec fn v_span(&self) -> SourceSpan;
//@  |     spec fn v_layout_ahead(&self) -> Option<&'i I>;
//@  fn state ret=r
//@  |         ensures r == self.v_state(),
//@  fn position ret=r
//@  |         ensures r == self.v_position(),
//@  fn set_position
//@  |         ensures final(self).v_position() == position, final(self).v_state() == old(self).v_state(),
//@  |             final(self).v_span() == old(self).v_span(), final(self).v_layout_ahead() == old(self).v_layout_ahead(),
//@  fn span ret=r
//@  |         ensures r == self.v_span(),
//@  fn layout_ahead ret=r
//@  |         ensures r == self.v_layout_ahead(),
//@  fn set_layout_ahead
//@  |         ensures final(self).v_layout_ahead() == layout, final(self).v_state() == old(self).v_state(),
//@  |             final(self).v_position() == old(self).v_position(), final(self).v_span() == old(self).v_span(),
//@end
//@struct LEX StringLexer
//@end
//@allow external_body xexpr_ws_len: the whitespace-run length expression of StringLexer::skip (chars/take_while/map/sum adapter chain) moved verbatim into an external function; ASSUMED: the run it measures may be sliced off the input at the position (Kani harness lexer_skip_* checks the real expression for all UTF-8 of <= 5 bytes)
//@impl LEX /^impl < 'i , C : Context < 'i , str , S , TK > , S : State , TK , TR : TokenRecognizer < 'i > , const TERMINAL_COUNT : usize , > StringLexer/
//@  fn skip
//@  |         requires input.index_req(&RangeFrom { start: old(context).v_position().pos }),
//@  |         ensures
//@  |             final(context).v_state() == old(context).v_state(), final(context).v_span() == old(context).v_span(),
//@  |             ({
//@  |                 let p = old(context).v_position();
//@  |                 let n = ws_len(input, p.pos);
//@  |                 if n > 0 {
//@  |                     // [C14] the skipped run is stored as the layout and the position moves to its end
//@  |                     &&& final(context).v_layout_ahead() == Some(str_index(input, Range { start: p.pos, end: (p.pos + n) as usize })) // [C14]
//@  |                     &&& final(context).v_position() == v_position_after(str_index(input, Range { start: p.pos, end: (p.pos + n) as usize }), p) // [C14]
//@  |                 } else {
//@  |                     &&& final(context).v_layout_ahead() is None // [C14]
//@  |                     &&& final(context).v_position() == p
//@  |                 }
//@  |             }),
//@  xexpr xexpr_ws_len(input, &*context) = input[context.position().pos..].chars().take_while(|x| x.is_whitespace()).map(|c| c.len_utf8()).sum()
//@end
/// the byte length of the whitespace run at `pos` (what the R-XEXPR'd expression returns)
pub uninterp spec fn ws_len(input: &str, pos: usize) -> usize;
//@xexprfn xexpr_ws_len
//@  | fn xexpr_ws_len<'i, C: Context<'i, str, S, TK>, S: State, TK>(input: &'i str, context: &C) -> (r: usize)
//@  |     requires input.index_req(&RangeFrom { start: context.v_position().pos }),
//@  |     ensures r == ws_len(input, context.v_position().pos), context.v_position().pos + r <= usize::MAX,
//@  |         input.index_req(&Range { start: context.v_position().pos, end: (context.v_position().pos + r) as usize }),
//@end

} // verus!
fn main() {}
