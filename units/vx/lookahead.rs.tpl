// Unit lookahead: lexical disambiguation of the token candidates in the two parsers (C06 "then (if enabled) the longest
// match; then grammar order (always for LR, optional for GLR); with a strategy disabled, all tokens surviving the enabled
// ones are kept").  Two lifted statement ranges (R-LIFT, tools/lift.py):
//   lr_longest_block  -- `if tokens.len() > 1 { .. }` of LRParser::next_token  (rustemo/src/lr/parser.rs)
//   glr_disamb_block  -- `if tokens.len() > 1 { .. }` of GlrParser::find_lookaheads (rustemo/src/glr/parser.rs)
#![feature(allocator_api)]
use vstd::prelude::*;
use std::alloc::Allocator;
use std::ops::{Index, Range};
use std::borrow::ToOwned;
verus! {

//@file POS rustemo/src/position.rs
//@file INP rustemo/src/input.rs
//@file LEX rustemo/src/lexer.rs
//@file LRP rustemo/src/lr/parser.rs

//@struct POS LineColumn derive=Clone,Copy
//@end
//@struct POS Position derive=Clone,Copy
//@end
//@struct POS SourceSpan derive=Clone,Copy
//@end
//@trait INP Input methods=len
//@  raw
//@  |     spec fn v_len(&self) -> usize;
//@  fn len ret=r attr=verifier::when_used_as_spec(v_len)
//@  |         ensures r == self.v_len(),
//@end
//@struct LEX Token
//@end
//@enum LRP Action derive=Copy,Clone
//@end
//@trait LRP ParserDefinition methods=longest_match,grammar_order
//@  raw
//@  |     spec fn v_longest_match() -> bool;
//@  |     spec fn v_grammar_order() -> bool;
//@  fn longest_match ret=r
//@  |         ensures r == Self::v_longest_match(),
//@  fn grammar_order ret=r
//@  |         ensures r == Self::v_grammar_order(),
//@end

//@allow assume_specification Vec::retain keeps exactly the elements for which the closure returns true, in order (std dependency)
pub assume_specification<T, A: Allocator, F: FnMut(&T) -> bool> [Vec::<T, A>::retain] (v: &mut Vec<T, A>, f: F)
    requires forall|x: &T| #[trigger] f.requires((x,)),
    ensures forall|p: spec_fn(T) -> bool| (forall|x: &T, b: bool| #[trigger] f.ensures((x,), b) ==> b == p(*x))
        ==> final(v)@ == #[trigger] old(v)@.filter(p);

//@include lookahead_specs.inc

//@allow external_body xexpr_longest_len: the expression `tokens.iter().max_by_key(|token| token.value.len()).unwrap().value.len()` (Iterator::max_by_key is a provided trait method: Verus accepts no specification for it) moved verbatim into an external function; ASSUMED: it returns the length of a longest candidate of a non-empty vector

//@lift LRL lr_longest_block
//@fn LRL lr_longest_block allclosures
//@  |     ensures final(tokens)@ == lr_disamb(old(tokens)@), // [C06]
//@  xexpr xexpr_longest_len(&*tokens) = tokens.iter().max_by_key(|token| token.value.len()).unwrap().value.len()
//@  cspec_self retain bool
//@  before 1 "tokens.retain("
//@  |                    proof { lemma_keep_longest(tokens@, longest_len); }
//@end

//@lift GLD glr_disamb_block
//@fn GLD glr_disamb_block allclosures
//@  |     ensures final(tokens)@ == glr_disamb(old(tokens)@, D::v_longest_match(), D::v_grammar_order()), // [C06]
//@  xexpr xexpr_longest_len(&*tokens) = tokens.iter().max_by_key(|token| token.value.len()).unwrap().value.len()
//@  cspec_self retain bool
//@  before 1 "tokens.retain("
//@  |                        proof { lemma_keep_longest(tokens@, longest_len); lemma_keep_longest_sound(tokens@, longest_len); }
//@end
//@xexprfn xexpr_longest_len
//@  | fn xexpr_longest_len<'i, I: Input + ?Sized, TK>(tokens: &Vec<Token<'i, I, TK>>) -> (r: usize)
//@  |     requires tokens@.len() > 0,
//@  |     ensures is_longest(tokens@, r),
//@end

} // verus!
fn main() {}
