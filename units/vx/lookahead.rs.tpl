// Unit lookahead: lexical disambiguation of the token candidates in the two parsers (C06 "then (if enabled) the longest
// match; then grammar order (always for LR, optional for GLR); with a strategy disabled, all tokens surviving the enabled
// ones are kept").  Two lifted statement ranges (R-LIFT, tools/lift.py):
//   lr_longest_block  -- `if tokens.len() > 1 { .. }` of LRParser::next_token  (rustemo/src/lr/parser.rs)
//   glr_disamb_block  -- `if tokens.len() > 1 { .. }` of GlrParser::find_lookaheads (rustemo/src/glr/parser.rs)
#![feature(allocator_api)]
use vstd::prelude::*;
use std::alloc::Allocator;
use std::ops::{Index, Range};
use std::borrow::ToOwned;
verus! {

//@file POS rustemo/src/position.rs
//@file INP rustemo/src/input.rs
//@file LEX rustemo/src/lexer.rs
//@file LRP rustemo/src/lr/parser.rs

//@struct POS LineColumn derive=Clone,Copy
//@end
//@struct POS Position derive=Clone,Copy
//@end
//@struct POS SourceSpan derive=Clone,Copy
//@end
//@trait INP Input methods=len
//@  raw
//@  |     spec fn v_len(&self) -> usize;
//@  fn len ret=r attr=verifier::when_used_as_spec(v_len)
//@  |         ensures r == self.v_len(),
//@end
//@struct LEX Token
//@end
//@enum LRP Action derive=Copy,Clone
//@end
//@trait LRP ParserDefinition methods=longest_match,grammar_order
//@  raw
//@  |     spec fn v_longest_match() -> bool;
//@  |     spec fn v_grammar_order() -> bool;
//@  fn longest_match ret=r
//@  |         ensures r == Self::v_longest_match(),
//@  fn grammar_order ret=r
//@  |         ensures r == Self::v_grammar_order(),
//@end

//@allow assume_specification Vec::retain keeps exactly the elements for which the closure returns true, in order (std dependency)
pub assume_specification<T, A: Allocator, F: FnMut(&T) -> bool> [Vec::<T, A>::retain] (v: &mut Vec<T, A>, f: F)
    requires forall|x: &T| #[trigger] f.requires((x,)),
    ensures forall|p: spec_fn(T) -> bool| (forall|x: &T, b: bool| #[trigger] f.ensures((x,), b) ==> b == p(*x))
        ==> final(v)@ == #[trigger] old(v)@.filter(p);

// ---- specification, from the text of C06 ---------------------------------------------------------------------------------
/// the length of the text a token matched
pub open spec fn tok_len<'i, I: Input + ?Sized, TK>(t: Token<'i, I, TK>) -> usize { t.value.v_len() }

/// m is the length of a longest candidate
pub open spec fn is_longest<'i, I: Input + ?Sized, TK>(ts: Seq<Token<'i, I, TK>>, m: usize) -> bool {
    &&& exists|i: int| 0 <= i < ts.len() && tok_len(#[trigger] ts[i]) == m
    &&& forall|j: int| 0 <= j < ts.len() ==> tok_len(#[trigger] ts[j]) <= m
}

/// "the longest match": the candidates no other candidate is longer than, in their original (grammar) order
pub open spec fn keep_longest<'i, I: Input + ?Sized, TK>(ts: Seq<Token<'i, I, TK>>) -> Seq<Token<'i, I, TK>> {
    ts.filter(|t: Token<'i, I, TK>| forall|j: int| 0 <= j < ts.len() ==> tok_len(#[trigger] ts[j]) <= tok_len(t))
}

/// LR: longest match (this range runs only when it is enabled); grammar order is applied by the caller (`.next()`)
pub open spec fn lr_disamb<'i, I: Input + ?Sized, TK>(ts: Seq<Token<'i, I, TK>>) -> Seq<Token<'i, I, TK>> {
    if ts.len() > 1 { keep_longest(ts) } else { ts }
}

/// GLR: longest match if enabled, then the first in grammar order if enabled; a disabled strategy keeps everything
pub open spec fn glr_disamb<'i, I: Input + ?Sized, TK>(ts: Seq<Token<'i, I, TK>>, longest: bool, order: bool) -> Seq<Token<'i, I, TK>> {
    if ts.len() > 1 {
        let a = if longest { keep_longest(ts) } else { ts };
        if order && a.len() > 1 { a.subrange(0, 1) } else { a }
    } else { ts }
}

pub proof fn lemma_filter_ext<A>(s: Seq<A>, p: spec_fn(A) -> bool, q: spec_fn(A) -> bool)
    requires forall|i: int| 0 <= i < s.len() ==> p(#[trigger] s[i]) == q(s[i]),
    ensures s.filter(p) == s.filter(q),
    decreases s.len(),
{
    reveal(Seq::filter);
    if s.len() > 0 {
        lemma_filter_ext(s.drop_last(), p, q);
    }
}

/// filtering by "as long as the longest" is keep_longest
pub proof fn lemma_keep_longest<'i, I: Input + ?Sized, TK>(ts: Seq<Token<'i, I, TK>>, m: usize)
    requires is_longest(ts, m),
    ensures ts.filter(|t: Token<'i, I, TK>| tok_len(t) == m) == keep_longest(ts),
{
    let p = |t: Token<'i, I, TK>| tok_len(t) == m;
    let q = |t: Token<'i, I, TK>| forall|j: int| 0 <= j < ts.len() ==> tok_len(#[trigger] ts[j]) <= tok_len(t);
    assert forall|i: int| 0 <= i < ts.len() implies p(#[trigger] ts[i]) == q(ts[i]) by {
        let k = choose|k: int| 0 <= k < ts.len() && tok_len(#[trigger] ts[k]) == m;
        if q(ts[i]) { assert(tok_len(ts[k]) <= tok_len(ts[i])); }
    }
    lemma_filter_ext(ts, p, q);
}

/// C06 sanity: the longest match keeps at least one candidate, only candidates, and every kept one is a longest one
pub proof fn lemma_keep_longest_sound<'i, I: Input + ?Sized, TK>(ts: Seq<Token<'i, I, TK>>, m: usize)
    requires is_longest(ts, m),
    ensures keep_longest(ts).len() >= 1,
        forall|i: int| 0 <= i < keep_longest(ts).len() ==> ts.contains(#[trigger] keep_longest(ts)[i]) && tok_len(keep_longest(ts)[i]) == m,
{
    let q = |t: Token<'i, I, TK>| forall|j: int| 0 <= j < ts.len() ==> tok_len(#[trigger] ts[j]) <= tok_len(t);
    let k = choose|k: int| 0 <= k < ts.len() && tok_len(#[trigger] ts[k]) == m;
    assert(q(ts[k]));
    lemma_filter_has(ts, q, k);
    lemma_filter_members(ts, q);
    assert forall|i: int| 0 <= i < keep_longest(ts).len() implies ts.contains(#[trigger] keep_longest(ts)[i]) && tok_len(keep_longest(ts)[i]) == m by {
        let x = keep_longest(ts)[i];
        assert(q(x));
        assert(tok_len(ts[k]) <= tok_len(x));
        let j = choose|j: int| 0 <= j < ts.len() && ts[j] == x;
        assert(tok_len(ts[j]) <= m);
    }
}
pub proof fn lemma_filter_has<A>(s: Seq<A>, p: spec_fn(A) -> bool, k: int)
    requires 0 <= k < s.len(), p(s[k]),
    ensures s.filter(p).len() >= 1,
    decreases s.len(),
{
    reveal(Seq::filter);
    if k < s.len() - 1 { lemma_filter_has(s.drop_last(), p, k); }
}
pub proof fn lemma_filter_members<A>(s: Seq<A>, p: spec_fn(A) -> bool)
    ensures forall|i: int| 0 <= i < s.filter(p).len() ==> p(#[trigger] s.filter(p)[i]) && s.contains(s.filter(p)[i]),
    decreases s.len(),
{
    reveal(Seq::filter);
    if s.len() > 0 {
        lemma_filter_members(s.drop_last(), p);
        assert forall|i: int| 0 <= i < s.filter(p).len() implies p(#[trigger] s.filter(p)[i]) && s.contains(s.filter(p)[i]) by {
            let sub = s.drop_last().filter(p);
            if i < sub.len() {
                assert(s.drop_last().contains(sub[i]));
                let j = choose|j: int| 0 <= j < s.drop_last().len() && s.drop_last()[j] == sub[i];
                assert(s[j] == sub[i]);
            } else {
                assert(s[s.len() - 1] == s.last());
            }
        }
    }
}

//@allow external_body xexpr_longest_len: the expression `tokens.iter().max_by_key(|token| token.value.len()).unwrap().value.len()` (Iterator::max_by_key is a provided trait method: Verus accepts no specification for it) moved verbatim into an external function; ASSUMED: it returns the length of a longest candidate of a non-empty vector

//@lift LRL lr_longest_block
//@fn LRL lr_longest_block allclosures
//@  |     ensures final(tokens)@ == lr_disamb(old(tokens)@), // [C06]
//@  xexpr xexpr_longest_len(&*tokens) = tokens.iter().max_by_key(|token| token.value.len()).unwrap().value.len()
//@  cspec_self retain bool
//@  before 1 "tokens.retain("
//@  |                    proof { lemma_keep_longest(tokens@, longest_len); }
//@end

//@lift GLD glr_disamb_block
//@fn GLD glr_disamb_block allclosures
//@  |     ensures final(tokens)@ == glr_disamb(old(tokens)@, D::v_longest_match(), D::v_grammar_order()), // [C06]
//@  xexpr xexpr_longest_len(&*tokens) = tokens.iter().max_by_key(|token| token.value.len()).unwrap().value.len()
//@  cspec_self retain bool
//@  before 1 "tokens.retain("
//@  |                        proof { lemma_keep_longest(tokens@, longest_len); lemma_keep_longest_sound(tokens@, longest_len); }
//@end
//@xexprfn xexpr_longest_len
//@  | fn xexpr_longest_len<'i, I: Input + ?Sized, TK>(tokens: &Vec<Token<'i, I, TK>>) -> (r: usize)
//@  |     requires tokens@.len() > 0,
//@  |     ensures is_longest(tokens@, r),
//@end

} // verus!
fn main() {}
