// Unit lr_builder: TreeBuilder / SliceBuilder (rustemo/src/lr/builder.rs) -- tree construction (C02), layout (C14), panic freedom (C15).
use vstd::prelude::*;
use std::ops::{Index, Range};
use vstd::std_specs::core::IndexSpec;
verus! {

//@file POS rustemo/src/position.rs
//@file INP rustemo/src/input.rs
//@file PAR rustemo/src/parser.rs
//@file CTX rustemo/src/context.rs
//@file LEX rustemo/src/lexer.rs
//@file BLD rustemo/src/builder.rs
//@file LRB rustemo/src/lr/builder.rs

//@struct POS LineColumn derive=Clone,Copy
//@end
//@struct POS Position derive=Clone,Copy
//@end
//@struct POS SourceSpan derive=Clone,Copy
//@end
//@trait INP Input methods=len,position_after
//@end
//@trait PAR State methods=default_layout
//@end
//@struct LEX Token
//@end

//@trait CTX Context
//@  raw
//@  |     spec fn v_span(&self) -> SourceSpan;
//@  |     spec fn v_layout_ahead(&self) -> Option<&'i I>;
//@  |     spec fn v_position(&self) -> Position;
//@  |     spec fn v_state(&self) -> S;
//@  fn span ret=r
//@  |         ensures r == self.v_span(),
//@  fn layout_ahead ret=r
//@  |         ensures r == self.v_layout_ahead(),
//@  fn position ret=r
//@  |         ensures r == self.v_position(),
//@  fn state ret=r
//@  |         ensures r == self.v_state(),
//@end

//@include builder_traits.inc

//@enum LRB TreeNode
//@end
//@struct LRB TreeBuilder
//@end
//@struct LRB SliceBuilder
//@end

impl<'i, I: Input + ?Sized, P, TK> TreeBuilder<'i, I, P, TK> {
    /// abstract view: the result stack, bottom first
    pub closed spec fn stk(&self) -> Seq<TreeNode<'i, I, P, TK>> { self.res_stack@ }
}

impl<'i, I: Input + ?Sized> SliceBuilder<'i, I> {
    pub closed spec fn inp(&self) -> &'i I { self.input }
    pub closed spec fn out(&self) -> Option<&'i I> { self.slice }
}

pub open spec fn node_layout<'i, I: Input + ?Sized, P, TK>(n: TreeNode<'i, I, P, TK>) -> Option<&'i I> {
    match n {
        TreeNode::TermNode { layout, .. } => layout,
        TreeNode::NonTermNode { layout, .. } => layout,
    }
}

//@impl LRB /^impl < I , P , TK > TreeBuilder < '_ , I , P , TK >/
//@  fn new ret=r
//@  |         ensures r.stk().len() == 0,
//@end

//@impl LRB /^impl < 'i , I , P , TK > Builder for TreeBuilder/
//@  raw
//@  |     open spec fn v_tracks(&self) -> bool { true }
//@  |     open spec fn v_depth(&self) -> nat { self.stk().len() }
//@  type Output
//@  fn get_result ret=r
//@  |         ensures
//@  |             r == old(self).stk()[old(self).stk().len() - 1], // [C02]
//@  |             final(self).stk() == old(self).stk().subrange(0, old(self).stk().len() - 1),
//@end

//@impl LRB /^impl < 'i , I , C , S , P , TK > LRBuilder < 'i , I , C , S , P , TK > for TreeBuilder/
//@  raw
//@  |     open spec fn reduce_pre(&self, context: &C, prod_len: usize) -> bool { true }
//@  fn shift_action
//@  |         ensures
//@  |             final(self).stk().len() == old(self).stk().len() + 1, // [C02]
//@  |             final(self).stk().subrange(0, old(self).stk().len() as int) == old(self).stk(), // [C02]
//@  |             final(self).stk()[old(self).stk().len() as int] == (TreeNode::<'i, I, P, TK>::TermNode { token: token, layout: context.v_layout_ahead() }), // [C02,C14]
//@  fn reduce_action
//@  |         ensures
//@  |             final(self).stk().len() == old(self).stk().len() - prod_len + 1, // [C02]
//@  |             final(self).stk().subrange(0, old(self).stk().len() - prod_len) == old(self).stk().subrange(0, old(self).stk().len() - prod_len), // [C02]
//@  |             final(self).stk()[old(self).stk().len() - prod_len] == (TreeNode::<'i, I, P, TK>::NonTermNode {
//@  |                 prod: prod,
//@  |                 span: context.v_span(),
//@  |                 children: final(self).stk()[old(self).stk().len() - prod_len]->children,
//@  |                 layout: if prod_len > 0 { node_layout(old(self).stk()[old(self).stk().len() - prod_len]) } else { None },
//@  |             }), // [C02,C13,C14]
//@  |             final(self).stk()[old(self).stk().len() - prod_len]->children@ == old(self).stk().subrange(old(self).stk().len() - prod_len, old(self).stk().len() as int), // [C02]
//@end

// vstd's contract for From::from is `obeys_from_spec() ==> result == from_spec(v)`; this states what the
// real impl (extracted next) must return.  C12/C13: range = (start.pos, end.pos).
impl vstd::std_specs::convert::FromSpecImpl<SourceSpan> for Range<usize> {
    open spec fn obeys_from_spec() -> bool { true }
    open spec fn from_spec(v: SourceSpan) -> Self { Range { start: v.start.pos, end: v.end.pos } }
}
//@impl POS /^impl From < SourceSpan > for Range < usize >/
//@  fn from
//@end

//@impl LRB /^impl < 'i , I > SliceBuilder < 'i , I >/
//@  fn new ret=r
//@  |         ensures r.inp() == input, r.out().is_none(), // [C14]
//@end

//@impl LRB /^impl < 'i , I > Builder for SliceBuilder/
//@  raw
//@  |     open spec fn v_tracks(&self) -> bool { false }
//@  |     open spec fn v_depth(&self) -> nat { 0 }
//@  type Output
//@  fn get_result ret=r
//@  |         ensures r == old(self).out(), final(self).out() == old(self).out(), final(self).inp() == old(self).inp(), // [C14]
//@end

//@impl LRB /^impl < 'i , I , C , S , P , TK > LRBuilder < 'i , I , C , S , P , TK > for SliceBuilder/
//@  raw
//@  |     open spec fn reduce_pre(&self, context: &C, prod_len: usize) -> bool {
//@  |         self.inp().index_req(&Range { start: context.v_span().start.pos, end: context.v_span().end.pos })
//@  |     }
//@  fn shift_action
//@  |         ensures final(self).out() == old(self).out(), final(self).inp() == old(self).inp(), // [C14]
//@  fn reduce_action
//@  |         // every reduction -- an EMPTY one included -- replaces the stored slice: the result of a layout parse is never the slice
//@  |         // of an earlier one (C15: LRParser::next_token retries the lexer whenever the layout parser returns a non-empty
//@  |         // layout; a stale non-empty result makes it retry forever -- seed C15c)
//@  |         ensures final(self).out().is_some(), final(self).inp() == old(self).inp(), // [C14, C15]
//@end

} // verus!
fn main() {}
