// Unit lr_context: LRContext implements the Context contract that lr_stack / lr_builder assume (rustemo/src/lr/context.rs) -- C13.
use vstd::prelude::*;
verus! {

//@file POS rustemo/src/position.rs
//@file INP rustemo/src/input.rs
//@file PAR rustemo/src/parser.rs
//@file CTX rustemo/src/context.rs
//@file LEX rustemo/src/lexer.rs
//@file LRC rustemo/src/lr/context.rs
//@file GSS rustemo/src/glr/gss.rs

//@struct POS LineColumn derive=Clone,Copy
//@end
//@struct POS Position derive=Clone,Copy
//@end
//@struct POS SourceSpan derive=Clone,Copy
//@end
//@trait INP Input nosuper methods=len,position_after
//@end
//@trait PAR State methods=default_layout
//@end
//@struct LEX Token
//@end

// The Context contract: identical text to the one in lr_stack.rs.tpl / lr_builder.rs.tpl, plus token_ahead.
//@trait CTX Context nosuper
//@  raw
//@  |     spec fn v_state(&self) -> S;
//@  |     spec fn v_position(&self) -> Position;
//@  |     spec fn v_span(&self) -> SourceSpan;
//@  |     spec fn v_layout_ahead(&self) -> Option<&'i I>;
//@  |     spec fn v_token_ahead(&self) -> Option<Token<'i, I, TK>>;
//@  fn state ret=r
//@  |         ensures r == self.v_state(),
//@  fn set_state
//@  |         ensures final(self).v_state() == state,
//@  |             final(self).v_position() == old(self).v_position(),
//@  |             final(self).v_span() == old(self).v_span(),
//@  |             final(self).v_layout_ahead() == old(self).v_layout_ahead(),
//@  |             final(self).v_token_ahead() == old(self).v_token_ahead(),
//@  fn position ret=r
//@  |         ensures r == self.v_position(),
//@  fn set_position
//@  |         ensures final(self).v_position() == position,
//@  |             final(self).v_state() == old(self).v_state(),
//@  |             final(self).v_span() == old(self).v_span(),
//@  |             final(self).v_layout_ahead() == old(self).v_layout_ahead(),
//@  |             final(self).v_token_ahead() == old(self).v_token_ahead(),
//@  fn span ret=r
//@  |         ensures r == self.v_span(),
//@  fn set_span
//@  |         ensures final(self).v_span() == span,
//@  |             final(self).v_state() == old(self).v_state(),
//@  |             final(self).v_position() == old(self).v_position(),
//@  |             final(self).v_layout_ahead() == old(self).v_layout_ahead(),
//@  |             final(self).v_token_ahead() == old(self).v_token_ahead(),
//@  fn token_ahead ret=r
//@  |         ensures match r { Some(t) => self.v_token_ahead() == Some(*t), None => self.v_token_ahead() is None },
//@  fn set_token_ahead
//@  |         ensures final(self).v_token_ahead() == Some(token),
//@  |             final(self).v_state() == old(self).v_state(),
//@  |             final(self).v_position() == old(self).v_position(),
//@  |             final(self).v_span() == old(self).v_span(),
//@  |             final(self).v_layout_ahead() == old(self).v_layout_ahead(),
//@  fn layout_ahead ret=r
//@  |         ensures r == self.v_layout_ahead(),
//@  fn set_layout_ahead
//@  |         ensures final(self).v_layout_ahead() == layout,
//@  |             final(self).v_state() == old(self).v_state(),
//@  |             final(self).v_position() == old(self).v_position(),
//@  |             final(self).v_span() == old(self).v_span(),
//@  |             final(self).v_token_ahead() == old(self).v_token_ahead(),
//@end

//@struct LRC LRContext
//@end

impl<'i, I: Input + ?Sized, S, TK> LRContext<'i, I, S, TK> {
    pub closed spec fn f_state(&self) -> S { self.state }
    pub closed spec fn f_position(&self) -> Position { self.position }
    pub closed spec fn f_span(&self) -> SourceSpan { self.span }
    pub closed spec fn f_layout_ahead(&self) -> Option<&'i I> { self.layout_ahead }
    pub closed spec fn f_token_ahead(&self) -> Option<Token<'i, I, TK>> { self.token_ahead }
}

//@impl LRC /^impl < I : Input \+ \? Sized , S : Default , TK > LRContext < '_ , I , S , TK >/
//@  fn new ret=r
//@  |         ensures r.f_position() == position, r.f_span().start == position, r.f_span().end == position, // [C13]
//@  |             r.f_layout_ahead() is None, r.f_token_ahead() is None,
//@end

//@impl LRC /^impl < 'i , I , S , TK > Context < 'i , I , S , TK > for LRContext < 'i , I , S , TK >/
//@  raw
//@  |     open spec fn v_state(&self) -> S { self.f_state() }
//@  |     open spec fn v_position(&self) -> Position { self.f_position() }
//@  |     open spec fn v_span(&self) -> SourceSpan { self.f_span() }
//@  |     open spec fn v_layout_ahead(&self) -> Option<&'i I> { self.f_layout_ahead() }
//@  |     open spec fn v_token_ahead(&self) -> Option<Token<'i, I, TK>> { self.f_token_ahead() }
//@  fn state
//@  fn set_state
//@  fn position
//@  fn set_position
//@  fn span
//@  fn set_span
//@  fn token_ahead
//@  fn set_token_ahead
//@  fn layout_ahead
//@  fn set_layout_ahead
//@end

// ---- the GLR context: GssHead (rustemo/src/glr/gss.rs) implements the same Context contract -------------------------
//@struct GSS GssHead
//@end

impl<'i, I: Input + ?Sized, S, TK> GssHead<'i, I, S, TK> {
    pub closed spec fn g_frontier(&self) -> usize { self.frontier }
    pub closed spec fn g_state(&self) -> S { self.state }
    pub closed spec fn g_position(&self) -> Position { self.position }
    pub closed spec fn g_span(&self) -> SourceSpan { self.span }
    pub closed spec fn g_layout_ahead(&self) -> Option<&'i I> { self.layout_ahead }
    pub closed spec fn g_token_ahead(&self) -> Option<Token<'i, I, TK>> { self.token_ahead }
}

//@impl GSS /^impl < 'i , I , S , TK > GssHead < 'i , I , S , TK >/
//@  fn new ret=r
//@  |         ensures r.g_state() == state, r.g_frontier() == frontier, r.g_position() == position, r.g_span() == span, // [C13]
//@  |             r.g_layout_ahead() == layout_ahead, r.g_token_ahead() == token_ahead,
//@  fn with_tok_state ret=r
//@  |         ensures r.g_state() == state, r.g_token_ahead() == Some(token_ahead), r.g_frontier() == self.g_frontier(),
//@  |             r.g_position() == self.g_position(), r.g_span() == self.g_span(), r.g_layout_ahead() == self.g_layout_ahead(), // [C13]
//@  fn with_tok ret=r
//@  |         ensures r.g_state() == self.g_state(), r.g_token_ahead() == Some(token_ahead), r.g_frontier() == self.g_frontier(),
//@  |             r.g_position() == self.g_position(), r.g_span() == self.g_span(), r.g_layout_ahead() == self.g_layout_ahead(), // [C13]
//@end

//@impl GSS /^impl < 'i , S , I , TK > Context < 'i , I , S , TK > for GssHead < 'i , I , S , TK >/
//@  raw
//@  |     open spec fn v_state(&self) -> S { self.g_state() }
//@  |     open spec fn v_position(&self) -> Position { self.g_position() }
//@  |     open spec fn v_span(&self) -> SourceSpan { self.g_span() }
//@  |     open spec fn v_layout_ahead(&self) -> Option<&'i I> { self.g_layout_ahead() }
//@  |     open spec fn v_token_ahead(&self) -> Option<Token<'i, I, TK>> { self.g_token_ahead() }
//@  fn state
//@  fn set_state
//@  fn position
//@  fn set_position
//@  fn span
//@  fn set_span
//@  fn token_ahead
//@  fn set_token_ahead
//@  fn layout_ahead
//@  fn set_layout_ahead
//@end

} // verus!
fn main() {}
