// Unit lr_driver: the shift/reduce/accept loop of <LRParser as Parser>::parse_with_context (rustemo/src/lr/parser.rs) --
// the LR driver itself -- under loop invariants taken from C02 (stack discipline: the LR stack and the builder's result
// stack stay mirrored; a REDUCE pops `len` states and GOTOs on the production's non-terminal), C13 (the context's span is
// restored after a reduction), C14 (the layout in front of the lookahead survives the re-lex after a reduction and is
// handed to the builder with the token) and C15 (no panic: every callee precondition is met on every iteration).
// The statements reach Verus through R-LIFT (tools/lift.py, driver_block): the body of parse_with_context from
// `let mut state = parse_stack.state();` to its end, verbatim, as the body of a method whose receiver/parameters are
// exactly its free variables.  Termination of the loop is NOT proved (it depends on the table).
use vstd::prelude::*;
use std::marker::PhantomData;
use std::cell::RefCell;
use std::rc::Rc;
use std::fmt::Debug;
use std::ops::{Index, Range};
use std::borrow::ToOwned;

//@file POS rustemo/src/position.rs
//@file INP rustemo/src/input.rs
//@file PAR rustemo/src/parser.rs
//@file CTX rustemo/src/context.rs
//@file LEX rustemo/src/lexer.rs
//@file BLD rustemo/src/builder.rs
//@file LRB rustemo/src/lr/builder.rs
//@file LRP rustemo/src/lr/parser.rs
//@file ERR rustemo/src/error.rs

// The error type is only passed through (`?`): its real definition is kept outside verus!{} and declared opaque.
//@allow external_type_specification Error: real definition outside verus!{}, opaque (values are only passed through by `?`)
//@allow external_body Error: opaque type
//@struct ERR ParseError derive=Debug
//@end
//@enum ERR Error derive=Debug
//@end
verus! {

#[verifier::external_type_specification]
#[verifier::external_body]
pub struct ExError(Error);

// std::cell::RefCell is the type of one field of LRParser that the range never touches (the caller borrows it): opaque.
//@allow external_type_specification RefCell: opaque std type of the field LRParser::builder, which the lifted range does not read
//@allow external_body RefCell: opaque type
//@allow accept_recursive_types RefCell<T> holds a T (std type, opaque here)
#[verifier::accept_recursive_types(T)]
#[verifier::external_type_specification]
#[verifier::external_body]
pub struct ExRefCell<T: ?Sized>(RefCell<T>);

//@allow assume_specification Option::<&T>::copied returns the pointed-to value (std dependency)
pub assume_specification<'a, T: Copy> [Option::<&'a T>::copied] (o: Option<&'a T>) -> (r: Option<T>)
    ensures r == (match o { Some(x) => Some(*x), None => None });

//@type ERR Result

//@struct POS LineColumn derive=Clone,Copy,PartialEq,Eq
//@end
//@struct POS Position derive=Clone,Copy,PartialEq,Eq
//@end
//@struct POS SourceSpan derive=Clone,Copy,PartialEq,Eq
//@end
//@allow external_body SourceSpan's Debug::fmt: formatting code (write!), body dropped; present only so that the error types keep their derived Debug
//@impl POS /^impl Debug for SourceSpan/
//@  fn fmt xbody
//@end

//@trait INP Input methods=len,position_after
//@  raw
//@  |     spec fn v_after(&self, p: Position) -> Position;
//@  |     spec fn v_len(&self) -> usize;
//@  fn len ret=r
//@  |         ensures r == self.v_len(),
//@  fn position_after ret=r
//@  |         ensures r == self.v_after(position),
//@end

//@trait PAR State methods=default_layout
//@  raw
//@  |     spec fn v_default_layout() -> Option<Self>;
//@  fn default_layout ret=r
//@  |         ensures r == Self::v_default_layout(),
//@end

//@struct LEX Token
//@end

//@trait CTX Context
//@  raw
//@  |     spec fn v_state(&self) -> S;
//@  |     spec fn v_position(&self) -> Position;
//@  |     spec fn v_span(&self) -> SourceSpan;
//@  |     spec fn v_layout_ahead(&self) -> Option<&'i I>;
//@  fn state ret=r
//@  |         ensures r == self.v_state(),
//@  fn set_state
//@  |         ensures final(self).v_state() == state,
//@  |             final(self).v_position() == old(self).v_position(),
//@  |             final(self).v_span() == old(self).v_span(),
//@  |             final(self).v_layout_ahead() == old(self).v_layout_ahead(),
//@  fn position ret=r
//@  |         ensures r == self.v_position(),
//@  fn set_position
//@  |         ensures final(self).v_position() == position,
//@  |             final(self).v_state() == old(self).v_state(),
//@  |             final(self).v_span() == old(self).v_span(),
//@  |             final(self).v_layout_ahead() == old(self).v_layout_ahead(),
//@  fn span ret=r
//@  |         ensures r == self.v_span(),
//@  fn set_span
//@  |         ensures final(self).v_span() == span,
//@  |             final(self).v_state() == old(self).v_state(),
//@  |             final(self).v_position() == old(self).v_position(),
//@  |             final(self).v_layout_ahead() == old(self).v_layout_ahead(),
//@  fn layout_ahead ret=r
//@  |         ensures r == self.v_layout_ahead(),
//@  fn set_layout_ahead
//@  |         ensures final(self).v_layout_ahead() == layout,
//@  |             final(self).v_state() == old(self).v_state(),
//@  |             final(self).v_position() == old(self).v_position(),
//@  |             final(self).v_span() == old(self).v_span(),
//@end

// The lexer is only used by next_token (not verified here): the trait keeps its associated type.
//@trait LEX Lexer methods=-
//@  type Input
//@end

// ---- builders: the contract of the two traits the driver talks to --------------------------------------------------------
//@include builder_traits.inc

//@struct LRB SliceBuilder
//@end
// SliceBuilder's trait impls (bodies verified in unit lr_builder against the same shared contract; here only their existence
// matters: the layout parser is an LRParser over a SliceBuilder)
//@allow external_body SliceBuilder's Builder/LRBuilder methods: bodies verified in unit lr_builder, not here
//@impl LRB /^impl < 'i , I > Builder for SliceBuilder/
//@  raw
//@  |     open spec fn v_tracks(&self) -> bool { false }
//@  |     open spec fn v_depth(&self) -> nat { 0 }
//@  type Output
//@  fn get_result xbody
//@end
//@impl LRB /^impl < 'i , I , C , S , P , TK > LRBuilder < 'i , I , C , S , P , TK > for SliceBuilder/
//@  raw
//@  |     uninterp spec fn reduce_pre(&self, context: &C, prod_len: usize) -> bool;
//@  fn shift_action xbody
//@  fn reduce_action xbody
//@end

// ---- the table interface ------------------------------------------------------------------------------------------------------
//@enum LRP Action derive=Copy,Clone
//@end

//@trait LRP ParserDefinition methods=actions,goto,expected_token_kinds
//@  raw
//@  |     spec fn v_actions(&self, state: S, token: TK) -> Seq<Action<S, P>>;
//@  |     spec fn v_goto(&self, state: S, nonterm: NTK) -> S;
//@  |     spec fn v_expected(&self, state: S) -> Seq<(TK, bool)>;
//@  |     /// a depth function for the automaton (ghost; see table_ok)
//@  |     spec fn v_depth(&self, state: S) -> nat;
//@  fn actions ret=r
//@  |         ensures r@ == self.v_actions(state, token),
//@  fn goto ret=r
//@  |         ensures r == self.v_goto(state, nonterm),
//@  fn expected_token_kinds ret=r
//@  |         ensures r@ == self.v_expected(state),
//@end

/// "LR action lookup takes the first action of the cell" (C15); an empty cell is an error
pub open spec fn first_action<S, P, TK, NTK, D: ParserDefinition<S, P, TK, NTK>>(d: &D, s: S, t: TK) -> Action<S, P> {
    if d.v_actions(s, t).len() > 0 { d.v_actions(s, t)[0] } else { Action::Error }
}

/// What the driver needs from a table so that it never pops more than it pushed: the automaton admits a *depth function*
/// -- depth(start) = 0 is required separately; a transition (SHIFT or GOTO) raises the depth by at most one; a state
/// reduces at most depth(state) symbols; ACCEPT is only taken with something on the stack.  Every LR(0)-based automaton
/// has one: depth(s) = the largest dot position among the items of s (DESIGN.md section 3, C02).  ASSUMED of the
/// generated table (the table generator is not verified against it).
pub open spec fn table_ok<S, P, TK, NTK, D: ParserDefinition<S, P, TK, NTK>>(d: &D) -> bool {
    &&& forall|s: S, t: TK| (#[trigger] first_action::<S, P, TK, NTK, D>(d, s, t)) matches Action::Reduce(_, len) ==> len <= d.v_depth(s)
    &&& forall|s: S, t: TK| (#[trigger] first_action::<S, P, TK, NTK, D>(d, s, t)) matches Action::Shift(s2) ==> d.v_depth(s2) <= d.v_depth(s) + 1
    &&& forall|s: S, nt: NTK| d.v_depth(#[trigger] d.v_goto(s, nt)) <= d.v_depth(s) + 1
    &&& forall|s: S, t: TK| (#[trigger] first_action::<S, P, TK, NTK, D>(d, s, t)) is Accept ==> d.v_depth(s) >= 1
}

//@struct LRP StackItem
//@end
//@struct LRP ParseStack
//@end

/// the state stored at depth i of the LR stack needs at most i entries below it
spec fn stack_ok<S, P, TK, NTK, D: ParserDefinition<S, P, TK, NTK>>(d: &D, st: Seq<StackItem<S>>) -> bool {
    &&& st.len() >= 1
    &&& forall|i: int| 0 <= i < st.len() ==> d.v_depth((#[trigger] st[i]).state) <= i
}

pub open spec fn empty_span_ok(last: SourceSpan, pos: Position, r: SourceSpan) -> bool {
    r.start == r.end && (r.start == last.end || (last.end.pos <= pos.pos && r.start == pos))
}

// ParseStack: same contracts as unit lr_stack (verified again here on the same extracted bodies)
//@impl LRP /^impl < 'i , I , C , S , TK > ParseStack < S , I , C , TK >/
//@  fn state ret=r
//@  |         requires self.stack@.len() > 0,
//@  |         ensures r == self.stack@[self.stack@.len() - 1].state,
//@  fn push_state
//@  |         ensures
//@  |             final(self).stack@ == old(self).stack@.push(StackItem { state: state, span: old(context).v_span() }),
//@  |             final(context).v_state() == state,
//@  |             final(context).v_span() == old(context).v_span(),
//@  |             final(context).v_position() == old(context).v_position(),
//@  |             final(context).v_layout_ahead() == old(context).v_layout_ahead(),
//@  fn pop_states ret=r
//@  |         requires states < old(self).stack@.len(),
//@  |         ensures
//@  |             final(self).stack@ == old(self).stack@.subrange(0, old(self).stack@.len() - states),
//@  |             r.0 == old(self).stack@[old(self).stack@.len() - states - 1].state,
//@  |             states > 0 ==> r.1.start == old(self).stack@[old(self).stack@.len() - states].span.start,
//@  |             states > 0 ==> r.1.end == old(self).stack@[old(self).stack@.len() - 1].span.end,
//@  |             states == 0 ==> empty_span_ok(old(context).v_span(), old(context).v_position(), r.1),
//@  |             final(context).v_span() == old(context).v_span(),
//@  |             final(context).v_position() == old(context).v_position(),
//@  |             final(context).v_state() == old(context).v_state(),
//@  |             final(context).v_layout_ahead() == old(context).v_layout_ahead(),
//@end

//@trait PAR Parser methods=parse_with_context
//@  type Output
//@  fn parse_with_context
//@  |         ensures final(context).v_position().pos >= old(context).v_position().pos,
//@end

//@struct LRP LRParser attr=verifier::reject_recursive_types(I) attr=verifier::reject_recursive_types(C) attr=verifier::reject_recursive_types(S) attr=verifier::reject_recursive_types(TK) attr=verifier::reject_recursive_types(L)
//@end
//@type LRP LayoutParser

// <LRParser as Parser>::parse_with_context as a CALLEE (the nested parse of the layout parser inside next_token): external here,
// assumed of what it does to the context: only that the position never moves backwards.  (Its loop is verified below as driver_block.)
//@allow external_body <LRParser as Parser>::parse_with_context as the callee of next_token's layout parse: body not verified at this call (the lifted range driver_block is its loop); ASSUMED of its effect on the context: only that it never moves the position backwards
//@impl LRP /^impl < 'i , C , S , P , I , TK , NTK , D , L , B > Parser < 'i , I , C , S , TK > for LRParser/
//@  type Output
//@  fn parse_with_context xbody
//@end

// ---- LRParser::next_token: the real body, except that the three statements that call the lexer and pick a candidate
// (`let expected_tokens = ..; let mut next_tokens = self.lexer.next_tokens(..); let next_token = if D::longest_match() {..} else
// {..};` -- `next_tokens` is a Box<dyn Iterator>, a type Verus does not take) are replaced by one external call (R-XSTMTS).
// The candidate selection itself is proved in unit lookahead; what is proved HERE is everything after it: when the layout parser
// is tried, that the content state is restored around it, when the loop goes round again, and when the synthetic STOP of
// partial parsing may be produced.
//@allow external_body xstmts_lex: the lexer call and candidate selection of next_token (R-XSTMTS); ASSUMED: it leaves the context's state and span alone (lexers move the position and set the layout only: Kani harness lexer_skip_*)
//@allow external_body xexpr_expected_kinds: `self.definition.expected_token_kinds(context.state()).into_iter().map(|t| t.0).collect::<Vec<_>>()` (adapter chain) ASSUMED to return the kinds of the expected (kind, finish) pairs, in order
//@allow external_body error_expected: verified in unit error, external here
//@allow exec_allows_no_decreases_clause next_token's loop: termination is NOT proved (it goes round again only after a non-empty layout was consumed; that the position then advances is the layout parser's business)
//@allow assume_specification <[T]>::contains: declared so that the call is accepted; only "true implies non-empty" is assumed of its result (std dependency)
pub assume_specification<T: PartialEq> [<[T]>::contains] (s: &[T], x: &T) -> (r: bool)
    ensures r ==> s@.len() > 0;

/// slicing the input at an empty range at the current position is allowed (true of every position a lexer leaves the context at;
/// ASSUMED of the lexer: for str it needs a char boundary inside the input)
pub uninterp spec fn empty_slice_ok<I: Input + ?Sized>(input: &I, pos: usize) -> bool;
//@allow axiom fn empty_slice_ok means index_req for the empty range at that offset (definition of the uninterpreted predicate)
pub broadcast axiom fn axiom_empty_slice_ok<I: Input + ?Sized>(input: &I, pos: usize)
    ensures #[trigger] empty_slice_ok(input, pos) ==> vstd::std_specs::core::IndexSpec::index_req(input, &Range { start: pos, end: pos });

//@fn ERR error_expected ret=r xbody
//@end

//@impl LRP /^impl < 'i , C , S , P , I , TK , NTK , D , L , B > LRParser < 'i , C , S , P , TK , NTK , D , L , B , I >/ has=next_token
//@  fn next_token ret=r attr=verifier::exec_allows_no_decreases_clause
//@  |         requires
//@  |             forall|c: C| #[trigger] empty_slice_ok(input, c.v_position().pos),
//@  |             layout_parser is Some ==> S::v_default_layout() is Some, // "Layout state not defined." is checked where the layout parser is built
//@  |         ensures
//@  |             final(context).v_state() == old(context).v_state(), // [C02, C12] the content state is restored around a layout parse
//@  |             layout_parser is None ==> final(context).v_span() == old(context).v_span(),
//@  xstmts xstmts_lex "let expected_tokens = self.definition.expected_token_kinds(context.state());" "next_tokens.next()"
//@  |             let next_token = xstmts_lex(self, context, input);
//@  |             let ghost pos_lex = context.v_position(); // where the lexer looked for a token in this round (specification only)
//@  xexpr xexpr_expected_kinds(self.definition, context.state()) = self.definition.expected_token_kinds(context.state()).into_iter().map(|t| t.0).collect::<Vec<_>>()
//@  before 1 "loop {"
//@  |         broadcast use axiom_empty_slice_ok;
//@  |         let ghost st0 = context.v_state();
//@  |         let ghost sp0 = context.v_span();
//@  loop 1
//@  |             invariant
//@  |                 context.v_state() == st0, st0 == old(context).v_state(), sp0 == old(context).v_span(),
//@  |                 layout_parser is None ==> context.v_span() == sp0,
//@  |                 forall|c: C| #[trigger] empty_slice_ok(input, c.v_position().pos),
//@  |                 layout_parser is Some ==> S::v_default_layout() is Some,
//@  after 1 "loop {"
//@  |             broadcast use axiom_empty_slice_ok;
//@  |             // has the layout parser been tried at the current position in this round?
//@  |             let ghost mut laid = false;
//@  after 1 "let p = layout_parser.parse_with_context(context, input);"
//@  |                     proof { laid = true; }
//@  before 1 "continue;"
//@  |                             // [C14] with a Layout rule the layout stored in front of the next token is what the layout parser returned,
//@  |                             // and the loop goes round again only because something was consumed
//@  |                             assert(context.v_layout_ahead() == Some(layout) && layout.v_len() > 0 && context.v_state() == st0); // [C14]
//@  before 1 "let stop_kind = <TK as Default>::default();"
//@  |                 // [C02] "synthetic STOP only when no expected token matches": the error / STOP decision is taken only after the
//@  |                 // layout parser, if there is one, has been tried at this position -- so enabling partial parsing cannot end the
//@  |                 // parse in front of layout that the full parser would have skipped
//@  |                 assert(layout_parser is Some ==> laid); // [C02, C12]
//@  |                 assert(context.v_state() == st0); // [C02, C12] the expected kinds are those of the content state
//@  |                 // [C12] "the start of the first token that cannot continue": the position reported is not in front of where the lexer
//@  |                 // last looked for a token (layout consumed in earlier rounds stays consumed)
//@  |                 assert(context.v_position().pos >= pos_lex.pos); // [C12]
//@  |                 assert(empty_slice_ok(input, context.v_position().pos));
//@end
//@xexprfn xstmts_lex nobody
//@  | fn xstmts_lex<'i, C, S, P, I, TK, NTK, D, L, B>(parser: &LRParser<'i, C, S, P, TK, NTK, D, L, B, I>, context: &mut C, input: &'i I) -> (r: Option<Token<'i, I, TK>>)
//@  |     where C: Context<'i, I, S, TK>, S: State, I: Input + ?Sized, TK: Default, D: ParserDefinition<S, P, TK, NTK>, L: Lexer<'i, C, S, TK, Input = I>,
//@  |     ensures final(context).v_state() == old(context).v_state(), final(context).v_span() == old(context).v_span(),
//@end
//@xexprfn xexpr_expected_kinds nobody
//@  | fn xexpr_expected_kinds<S, P, TK, NTK, D: ParserDefinition<S, P, TK, NTK>>(definition: &D, state: S) -> (r: Vec<TK>)
//@  |     ensures r@.len() == definition.v_expected(state).len(), forall|i: int| 0 <= i < r@.len() ==> r@[i] == definition.v_expected(state)[i].0,
//@end

//@lift DRV driver_block
//@allow external_body xexpr_cant_continue: the expression `err!(format!(..))` of the Action::Error arm (format! machinery) is replaced by a call of an external function whose body is dropped; nothing is assumed of its result
//@allow exec_allows_no_decreases_clause the driver loop: termination is NOT proved (it depends on the table: a cycle of unit/empty reductions would loop)
//@impl DRV /^impl < 'i , C , S , P , I , TK , NTK , D , L , B > LRParser < 'i , C , S , P , TK , NTK , D , L , B , I >/
//@  fn driver_block ret=r attr=verifier::exec_allows_no_decreases_clause
//@  |         requires
//@  |             table_ok::<S, P, TK, NTK, D>(self.definition),
//@  |             stack_ok::<S, P, TK, NTK, D>(self.definition, parse_stack.stack@),
//@  |             parse_stack.stack@.len() == 1, // what ParseStack::new returns (unit lr_stack)
//@  |             // the builder needs nothing but a deep enough result stack for a reduction (true of TreeBuilder, unit lr_builder;
//@  |             // NOT of SliceBuilder, whose reduce_action slices the input at the reduced span)
//@  |             forall|b: B, c: &C, n: usize| #[trigger] b.reduce_pre(c, n),
//@  |             // what next_token needs (see there)
//@  |             forall|c: C| #[trigger] empty_slice_ok(input, c.v_position().pos),
//@  |             layout_parser is Some ==> S::v_default_layout() is Some,
//@  xexpr xexpr_cant_continue(state, &next_token) = err!(format!("Can't continue in state {state:?} with lookahead {next_token:?}."))
//@  before 1 "let mut state = parse_stack.state();"
//@  |         let ghost d = self.definition;
//@  |         let ghost depth0 = builder.v_depth();
//@  before 1 "loop {"
//@  |         // the layout found in front of the current lookahead when it was first lexed, and the span of the last shifted token
//@  |         let ghost mut lay = context.v_layout_ahead();
//@  |         let ghost mut last_span = context.v_span();
//@  loop 1
//@  |             invariant
//@  |                 table_ok::<S, P, TK, NTK, D>(self.definition),
//@  |                 forall|b: B, c: &C, n: usize| #[trigger] b.reduce_pre(c, n),
//@  |                 forall|c: C| #[trigger] empty_slice_ok(input, c.v_position().pos),
//@  |                 layout_parser is Some ==> S::v_default_layout() is Some,
//@  |                 stack_ok::<S, P, TK, NTK, D>(self.definition, parse_stack.stack@),
//@  |                 state == parse_stack.stack@[parse_stack.stack@.len() - 1].state, // [C02]
//@  |                 builder.v_tracks() ==> builder.v_depth() + 1 == depth0 + parse_stack.stack@.len(), // [C02] the two stacks stay mirrored
//@  |                 context.v_layout_ahead() == lay, // [C14] the lookahead's layout survives re-lexing after a reduction
//@  |                 layout_parser is None ==> context.v_span() == last_span, // [C13] the context's span is restored after a reduction
//@  |             ensures
//@  |                 builder.v_tracks() ==> builder.v_depth() >= 1, // ACCEPT is only taken with a result on the builder's stack
//@  before 1 "match action {"
//@  |             assert(action == first_action::<S, P, TK, NTK, D>(self.definition, state, next_token.kind)); // [C02, C15] the action taken is the first of the cell; an empty cell is an error
//@  |             let ghost pos0 = context.v_position();
//@  |             let ghost stack0 = parse_stack.stack@;
//@  before 1 "builder.shift_action(context, next_token);"
//@  |                     proof {
//@  |                         // what the builder is told: [C13] span = [position, position_after(token)], the position has moved to its end;
//@  |                         // [C14] the layout is the one found in front of this token when it was first lexed
//@  |                         assert(context.v_span().start == pos0 && context.v_span().end == next_token.value.v_after(pos0)
//@  |                             && context.v_position() == context.v_span().end); // [C13]
//@  |                         assert(context.v_layout_ahead() == lay); // [C14]
//@  |                         assert(parse_stack.stack@ == stack0.push(StackItem { state: state, span: context.v_span() })); // [C02, C13]
//@  |                     }
//@  before 2 "next_token = self.next_token(input, context, &layout_parser)?;"
//@  |                     // [C14] the layout belongs to the token just shifted: the next token is lexed with no layout pending (fix 7dd2905)
//@  |                     assert(context.v_layout_ahead() is None); // [C14]
//@  after 2 "next_token = self.next_token(input, context, &layout_parser)?;"
//@  |                     proof { lay = context.v_layout_ahead(); last_span = context.v_span(); }
//@  before 1 "builder.reduce_action(context, prod, prod_len);"
//@  |                     proof {
//@  |                         // [C02] "Reduce(prod,len): pop len states, goto on production's nonterminal"; [C13] the builder sees the reduced span
//@  |                         assert(context.v_span() == span); // [C13]
//@  |                         assert(parse_stack.stack@ == stack0.subrange(0, stack0.len() - prod_len).push(StackItem { state: state, span: span })); // [C02]
//@  |                         assert(exists|nt: NTK| state == #[trigger] self.definition.v_goto(stack0[stack0.len() - prod_len - 1].state, nt)); // [C02]
//@  |                     }
//@end
//@xexprfn xexpr_cant_continue nobody
//@  | fn xexpr_cant_continue<'i, S: Debug, I: Input + ?Sized + Debug, TK: Debug>(state: S, next_token: &Token<'i, I, TK>) -> (r: Result<()>)
//@end

} // verus!
fn main() {}
