// Unit lr_stack: ParseStack (rustemo/src/lr/parser.rs) -- stack discipline (C02), spans (C13), panic freedom (C15).
// Everything executable below is extracted from /repo on every run; see tools/vx.py.
use vstd::prelude::*;
use std::marker::PhantomData;
verus! {

//@file POS rustemo/src/position.rs
//@file INP rustemo/src/input.rs
//@file PAR rustemo/src/parser.rs
//@file CTX rustemo/src/context.rs
//@file LEX rustemo/src/lexer.rs
//@file LRP rustemo/src/lr/parser.rs

//@struct POS LineColumn derive=Clone,Copy
//@end
//@struct POS Position derive=Clone,Copy
//@end
//@struct POS SourceSpan derive=Clone,Copy
//@end

//@trait INP Input nosuper methods=len,position_after
//@end

//@trait PAR State methods=default_layout
//@end

//@struct LEX Token
//@end

//@trait CTX Context
//@  raw
//@  |     spec fn v_state(&self) -> S;
//@  |     spec fn v_position(&self) -> Position;
//@  |     spec fn v_span(&self) -> SourceSpan;
//@  |     spec fn v_layout_ahead(&self) -> Option<&'i I>;
//@  fn state ret=r
//@  |         ensures r == self.v_state(),
//@  fn set_state
//@  |         ensures final(self).v_state() == state,
//@  |             final(self).v_position() == old(self).v_position(),
//@  |             final(self).v_span() == old(self).v_span(),
//@  |             final(self).v_layout_ahead() == old(self).v_layout_ahead(),
//@  fn position ret=r
//@  |         ensures r == self.v_position(),
//@  fn set_position
//@  |         ensures final(self).v_position() == position,
//@  |             final(self).v_state() == old(self).v_state(),
//@  |             final(self).v_span() == old(self).v_span(),
//@  |             final(self).v_layout_ahead() == old(self).v_layout_ahead(),
//@  fn span ret=r
//@  |         ensures r == self.v_span(),
//@  fn set_span
//@  |         ensures final(self).v_span() == span,
//@  |             final(self).v_state() == old(self).v_state(),
//@  |             final(self).v_position() == old(self).v_position(),
//@  |             final(self).v_layout_ahead() == old(self).v_layout_ahead(),
//@  fn layout_ahead ret=r
//@  |         ensures r == self.v_layout_ahead(),
//@  fn set_layout_ahead
//@  |         ensures final(self).v_layout_ahead() == layout,
//@  |             final(self).v_state() == old(self).v_state(),
//@  |             final(self).v_position() == old(self).v_position(),
//@  |             final(self).v_span() == old(self).v_span(),
//@end

//@struct LRP StackItem
//@end
//@struct LRP ParseStack
//@end

// ---- specification vocabulary (no executable code) -------------------------

/// C13: "an empty nonterminal has a zero-width span lying between the end of the
/// preceding token (or the start of input) and the start of the next token".
/// `last` is the context's current span (the last shifted token, or the start
/// position before anything was shifted), `pos` the context's position (start of
/// the lookahead).  A point strictly inside the layout would need its own
/// line/column, so the two end points are the only positions that can be named.
pub open spec fn empty_span_ok(last: SourceSpan, pos: Position, r: SourceSpan) -> bool {
    r.start == r.end && (r.start == last.end || (last.end.pos <= pos.pos && r.start == pos))
}

//@impl LRP /^impl < 'i , I , C , S , TK > ParseStack < S , I , C , TK >/
//@  fn new ret=r
//@  |         ensures
//@  |             r.stack@.len() == 1,
//@  |             r.stack@[0].state == start_state,
//@  |             r.stack@[0].span == old(context).v_span(), // [C13]
//@  |             final(context).v_span() == old(context).v_span(),
//@  |             final(context).v_position() == old(context).v_position(),
//@  |             final(context).v_state() == old(context).v_state(),
//@  |             final(context).v_layout_ahead() == old(context).v_layout_ahead(),
//@  fn state ret=r
//@  |         requires self.stack@.len() > 0,
//@  |         ensures r == self.stack@[self.stack@.len() - 1].state, // [C02]
//@  fn push_state
//@  |         ensures
//@  |             final(self).stack@.len() == old(self).stack@.len() + 1, // [C02]
//@  |             final(self).stack@.subrange(0, old(self).stack@.len() as int) == old(self).stack@, // [C02]
//@  |             final(self).stack@[old(self).stack@.len() as int].state == state, // [C02]
//@  |             final(self).stack@[old(self).stack@.len() as int].span == old(context).v_span(), // [C13]
//@  |             final(context).v_state() == state,
//@  |             final(context).v_span() == old(context).v_span(),
//@  |             final(context).v_position() == old(context).v_position(),
//@  |             final(context).v_layout_ahead() == old(context).v_layout_ahead(),
//@  fn pop_states ret=r
//@  |         requires states < old(self).stack@.len(),
//@  |         ensures
//@  |             final(self).stack@ == old(self).stack@.subrange(0, old(self).stack@.len() - states), // [C02]
//@  |             r.0 == old(self).stack@[old(self).stack@.len() - states - 1].state, // [C02]
//@  |             states > 0 ==> r.1.start == old(self).stack@[old(self).stack@.len() - states].span.start, // [C13]
//@  |             states > 0 ==> r.1.end == old(self).stack@[old(self).stack@.len() - 1].span.end, // [C13]
//@  |             states == 0 ==> empty_span_ok(old(context).v_span(), old(context).v_position(), r.1), // [C13]
//@  |             final(context).v_span() == old(context).v_span(),
//@  |             final(context).v_position() == old(context).v_position(),
//@  |             final(context).v_state() == old(context).v_state(),
//@  |             final(context).v_layout_ahead() == old(context).v_layout_ahead(),
//@end

// "res_stack mirrored to the LR stack": pop n / push one on both keeps the lengths equal.
pub proof fn lemma_stacks_stay_aligned(parse_len: nat, res_len: nat, n: nat)
    requires parse_len == res_len + 1, n <= res_len,
    ensures (parse_len - n) + 1 == (res_len - n) + 1 + 1,
{
}

} // verus!
fn main() {}
