// Unit meta: how production meta-data reaches the fields conflict resolution reads (C05 "Production.prio/assoc/nops/nopse",
// C09 "rule-level meta-data ... is inherited by each production unless the production gives that meta-data itself").
// R-LIFT meta_block: the statements of GrammarBuilder::extract_productions_and_symbols (rustemo-compiler/src/grammar/builder.rs)
// from `for (key, data) in &rule.meta {` to the `nopse` mapping, verbatim.
#![feature(allocator_api)]
use vstd::prelude::*;
use std::collections::BTreeMap;
use std::collections::btree_map::Iter as BTreeMapIter;
use std::alloc::Allocator;
use vstd::std_specs::btree::*;
use vstd::std_specs::iter::IteratorSpec;

//@file POS rustemo/src/position.rs
//@file GRM rustemo-compiler/src/grammar/mod.rs
//@file ACT rustemo-compiler/src/lang/rustemo_actions.rs
//@file IDX rustemo-compiler/src/index.rs

// ConstVal / ValSpan keep their derived Clone: the definitions are placed outside verus!{} and made known, structure
// visible, through external_type_specification; the derived `clone` is given the contract "returns an equal value".
//@allow external_type_specification ConstVal, ValSpan, Position types: real definitions (with their derives) outside verus!{}; ConstVal transparent, ValSpan opaque (private field)
//@allow external_body ValSpan: opaque type (its `value` field is private)
//@allow assume_specification derived <ConstVal as Clone>::clone returns a value equal to its argument (what #[derive(Clone)] generates)
//@struct POS LineColumn derive=Clone,Copy
//@end
//@struct POS Position derive=Clone,Copy
//@end
//@struct POS SourceSpan derive=Clone,Copy
//@end
//@struct POS ValSpan derive=Clone
//@end
//@type ACT IntConst
//@type ACT FloatConst
//@type ACT BoolConst
//@type ACT StrConst
//@enum ACT ConstVal derive=Clone
//@end
verus! {

#[verifier::external_type_specification]
pub struct ExLineColumn(LineColumn);
#[verifier::external_type_specification]
pub struct ExPosition(Position);
#[verifier::external_type_specification]
pub struct ExSourceSpan(SourceSpan);
#[verifier::external_type_specification]
#[verifier::external_body]
#[verifier::reject_recursive_types(T)]
pub struct ExValSpan<T>(ValSpan<T>);
#[verifier::external_type_specification]
pub struct ExConstVal(ConstVal);
pub assume_specification [<ConstVal as Clone>::clone] (a: &ConstVal) -> (r: ConstVal)
    ensures r == *a;

//@macro PRD IDX create_index invoked_in=IDX index=ProdIndex collection=ProdVec
//@struct PRD ProdIndex derive=Copy,Clone
//@end
//@macro NTI IDX create_index invoked_in=IDX index=NonTermIndex collection=NonTermVec
//@struct NTI NonTermIndex derive=Copy,Clone
//@end
//@enum GRM Associativity
//@end
//@type GRM Priority
//@type ACT ProdMetaData
//@type ACT ProdMetaDatas
//@struct GRM ResolvingAssignment fields=-
//@end
//@struct GRM Production fields=kind,assoc,prio,nops,nopse,meta
//@end
//@struct ACT GrammarRule fields=meta
//@end

// ---- std facts about String keys that vstd does not provide (ASSUMED, listed) ------------------------------------------------
//@allow axiom fn String's Ord is a total order consistent with its Eq (std dependency; vstd axiomatises key_obeys_cmp_spec only for its own key types)
//@allow axiom fn a BTreeMap<String, V> looked up with a borrowed `&str` / `&String` key finds the entry whose key has the same characters (std dependency: String: Borrow<str>; vstd leaves contains_borrowed_key / maps_borrowed_key_to_value / borrowed_key_removed uninterpreted except for Box and Deref keys)
/// the String with the characters of s
pub uninterp spec fn skey(s: &str) -> String;
pub broadcast axiom fn axiom_string_key_obeys_cmp()
    ensures #[trigger] key_obeys_cmp_spec::<String>(), vstd::laws_cmp::obeys_cmp::<String>();
pub broadcast axiom fn axiom_skey(s: &str)
    ensures (#[trigger] skey(s))@ == s@;
pub broadcast axiom fn axiom_string_ext(a: String, b: String)
    ensures #![trigger a@, b@] a@ == b@ ==> a == b;
pub broadcast axiom fn axiom_str_contains<V>(m: Map<String, V>, s: &str)
    ensures #[trigger] contains_borrowed_key(m, s) == m.contains_key(skey(s));
pub broadcast axiom fn axiom_str_maps<V>(m: Map<String, V>, s: &str, v: V)
    ensures #[trigger] maps_borrowed_key_to_value(m, s, v) == (m.contains_key(skey(s)) && m[skey(s)] == v);
pub broadcast axiom fn axiom_str_removed<V>(old_m: Map<String, V>, new_m: Map<String, V>, s: &str)
    ensures #[trigger] borrowed_key_removed(old_m, new_m, s) == (new_m == old_m.remove(skey(s)));
pub broadcast axiom fn axiom_string_contains<V>(m: Map<String, V>, k: &String)
    ensures #[trigger] contains_borrowed_key(m, k) == m.contains_key(*k);

// ---- specification, from the text of C09 and C05 -----------------------------------------------------------------------------
/// the meta-data in force for a production: its own entries, and the rule's entries for the keys it does not give itself
pub open spec fn eff_meta(own: Map<String, ConstVal>, rule: Map<String, ConstVal>) -> Map<String, ConstVal> {
    rule.union_prefer_right(own)
}
pub open spec fn has(m: Map<String, ConstVal>, s: &str) -> bool { m.contains_key(skey(s)) }
/// the six keys the builder maps to fields are removed from the map that is kept
pub open spec fn rest_meta(m: Map<String, ConstVal>) -> Map<String, ConstVal> {
    m.remove(skey("priority")).remove(skey("kind")).remove(skey("left")).remove(skey("right")).remove(skey("nops")).remove(skey("nopse"))
}
/// what `prio.into()` / `kind.into()` return (From<ValSpan<T>> for T: the wrapped value)
pub uninterp spec fn vs_u32(v: IntConst) -> u32;
pub uninterp spec fn vs_string(v: StrConst) -> String;

//@lift MTB meta_block
//@allow external_body xexpr_prio / xexpr_kind: the conversions `prio.into()` / `kind.into()` (From<ValSpan<T>> for T, generated by a two-arm macro in rustemo/src/position.rs) are replaced by external functions (bodies dropped) whose results are uninterpreted functions of their argument
//@allow assume_specification <&BTreeMap as IntoIterator>::into_iter has the contract vstd gives BTreeMap::iter (std dependency)
pub assume_specification<'a, K, V, A: Allocator + Clone> [ <&'a BTreeMap<K, V, A> as IntoIterator>::into_iter ] (m: &'a BTreeMap<K, V, A>) -> (r: BTreeMapIter<'a, K, V>)
    ensures key_obeys_cmp_spec::<K>() ==> {
        &&& r.remaining().len() == m@.dom().len()
        &&& forall|i: int| 0 <= i < r.remaining().len() ==> m@.contains_key(*(#[trigger] r.remaining()[i]).0) && m@[*r.remaining()[i].0] == *r.remaining()[i].1
        &&& forall|k: K| #[trigger] m@.contains_key(k) ==> exists|i: int| 0 <= i < r.remaining().len() && *(#[trigger] r.remaining()[i]).0 == k
        &&& r.decrease() is Some
    };

//@fn MTB meta_block attr=verifier::loop_isolation(false)
//@  |     ensures
//@  |         ({
//@  |             let em = eff_meta(old(new_production).meta@, rule.meta@);
//@  |             // [C09] inheritance: what is kept is the meta-data in force, minus the six keys that become fields
//@  |             &&& final(new_production).meta@ == rest_meta(em) // [C09]
//@  |             // [C05] the fields conflict resolution reads
//@  |             &&& final(new_production).prio == (if has(em, "priority") { match em[skey("priority")] { ConstVal::Int(p) => vs_u32(p), _ => old(new_production).prio } } else { old(new_production).prio }) // [C05]
//@  |             &&& final(new_production).assoc == (if has(em, "right") { Associativity::Right } else if has(em, "left") { Associativity::Left } else { old(new_production).assoc }) // [C05]
//@  |             &&& final(new_production).nops == (old(new_production).nops || has(em, "nops")) // [C05]
//@  |             &&& final(new_production).nopse == (old(new_production).nopse || has(em, "nopse")) // [C05]
//@  |         }),
//@  xexpr xexpr_prio(prio) = prio.into()
//@  xexpr xexpr_kind(kind) = kind.into()
//@  before 1 "for (key, data) in &rule.meta {"
//@  |                 broadcast use axiom_string_key_obeys_cmp, axiom_skey, axiom_string_ext, axiom_str_contains, axiom_str_maps, axiom_str_removed, axiom_string_contains;
//@  |                 let ghost own = new_production.meta@;
//@  |                 let ghost rm = rule.meta@;
//@  loop 1 iter=it
//@  |                     invariant
//@  |                         it.seq().len() == rm.dom().len(),
//@  |                         forall|i: int| 0 <= i < it.seq().len() ==> rm.contains_key(*(#[trigger] it.seq()[i]).0) && rm[*it.seq()[i].0] == *it.seq()[i].1,
//@  |                         forall|k: String| #[trigger] rm.contains_key(k) ==> exists|i: int| 0 <= i < it.seq().len() && *(#[trigger] it.seq()[i]).0 == k,
//@  |                         // entries of the production itself are never overwritten; the rule's entries visited so far are in
//@  |                         forall|k: String| #[trigger] own.contains_key(k) ==> new_production.meta@.contains_key(k) && new_production.meta@[k] == own[k],
//@  |                         forall|k: String| #[trigger] new_production.meta@.contains_key(k) ==> own.contains_key(k) || (rm.contains_key(k) && new_production.meta@[k] == rm[k]),
//@  |                         forall|i: int| 0 <= i < it.index() ==> new_production.meta@.contains_key(*(#[trigger] it.seq()[i]).0),
//@  |                         new_production.prio == old(new_production).prio, new_production.assoc == old(new_production).assoc,
//@  |                         new_production.nops == old(new_production).nops, new_production.nopse == old(new_production).nopse,
//@  before 1 "// Map meta-data to production fields for easier access"
//@  |                 let ghost em = eff_meta(own, rm);
//@  |                 proof {
//@  |                     assert(new_production.meta@ =~= em);
//@  |                     // the six keys are pairwise different strings
//@  |                     reveal_strlit("priority"); reveal_strlit("kind"); reveal_strlit("left"); reveal_strlit("right"); reveal_strlit("nops"); reveal_strlit("nopse");
//@  |                     assert("priority"@.len() == 8 && "kind"@.len() == 4 && "left"@.len() == 4 && "right"@.len() == 5 && "nops"@.len() == 4 && "nopse"@.len() == 5);
//@  |                     assert("kind"@[0] == 'k' && "left"@[0] == 'l' && "nops"@[0] == 'n' && "right"@[0] == 'r' && "nopse"@[0] == 'n');
//@  |                     assert(skey("kind") != skey("left") && skey("kind") != skey("nops") && skey("left") != skey("nops") && skey("right") != skey("nopse"));
//@  |                     assert(skey("priority") != skey("kind") && skey("priority") != skey("left") && skey("priority") != skey("right") && skey("priority") != skey("nops") && skey("priority") != skey("nopse"));
//@  |                     assert(skey("kind") != skey("right") && skey("kind") != skey("nopse") && skey("left") != skey("right") && skey("left") != skey("nopse") && skey("nops") != skey("right") && skey("nops") != skey("nopse"));
//@  |                 }
//@  before 1 "if let Some(ConstVal::String(kind))"
//@  |                 proof { assert(new_production.meta@ =~= em.remove(skey("priority"))); }
//@  before 1 "if new_production.meta.remove("
//@  |                 proof { assert(new_production.meta@ =~= em.remove(skey("priority")).remove(skey("kind"))); }
//@  before 2 "if new_production.meta.remove("
//@  |                 proof { assert(new_production.meta@ =~= em.remove(skey("priority")).remove(skey("kind")).remove(skey("left"))); }
//@  before 3 "if new_production.meta.remove("
//@  |                 proof { assert(new_production.meta@ =~= em.remove(skey("priority")).remove(skey("kind")).remove(skey("left")).remove(skey("right"))); }
//@  before 4 "if new_production.meta.remove("
//@  |                 proof { assert(new_production.meta@ =~= em.remove(skey("priority")).remove(skey("kind")).remove(skey("left")).remove(skey("right")).remove(skey("nops"))); }
//@end
//@xexprfn xexpr_prio nobody
//@  | fn xexpr_prio(prio: IntConst) -> (r: u32)
//@  |     ensures r == vs_u32(prio),
//@end
//@xexprfn xexpr_kind nobody
//@  | fn xexpr_kind(kind: StrConst) -> (r: String)
//@  |     ensures r == vs_string(kind),
//@end

} // verus!
fn main() {}
