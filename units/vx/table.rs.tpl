// Unit table: FIRST of a symbol sequence (rustemo-compiler/src/table/mod.rs) -- C01 "a wrong FIRST set on a nullable prefix".
#![feature(allocator_api)]
use vstd::prelude::*;
use std::collections::BTreeSet;
use std::collections::btree_set::Iter as BTreeSetIter;
use std::slice::Iter;
use std::ops::Index;
use core::cmp::Ordering;
use vstd::std_specs::iter::IteratorSpec;
use vstd::std_specs::core::IndexSpec;
use vstd::std_specs::cmp::{OrdSpec, PartialOrdSpec, PartialEqSpec};
verus! {

//@file IDX rustemo-compiler/src/index.rs
//@file GRM rustemo-compiler/src/grammar/mod.rs
//@file TBL rustemo-compiler/src/table/mod.rs

//@allow assume_specification <&BTreeSet as IntoIterator>::into_iter has the contract vstd gives BTreeSet::iter (std dependency)

// ---- index newtypes: text of create_index!(SymbolIndex, SymbolVec) instantiated mechanically (R-MACRO) -------------
//@macro SYM IDX create_index invoked_in=IDX index=SymbolIndex collection=SymbolVec
//@struct SYM SymbolIndex derive=Copy,Clone,PartialEq,Eq,PartialOrd,Ord
//@end
//@struct SYM SymbolVec
//@end

// Assumption (listed in evidence): the *derived* PartialEq/PartialOrd/Ord of the usize newtype compare the single
// field -- what #[derive] generates.  Stated through vstd's spec traits so that BTreeSet's contracts apply.
impl vstd::std_specs::cmp::PartialEqSpecImpl for SymbolIndex {
    open spec fn obeys_eq_spec() -> bool { true }
    open spec fn eq_spec(&self, other: &Self) -> bool { self.0 == other.0 }
}
impl vstd::std_specs::cmp::PartialOrdSpecImpl for SymbolIndex {
    open spec fn obeys_partial_cmp_spec() -> bool { true }
    open spec fn partial_cmp_spec(&self, other: &Self) -> Option<Ordering> {
        Some(if self.0 < other.0 { Ordering::Less } else if self.0 == other.0 { Ordering::Equal } else { Ordering::Greater })
    }
}
impl vstd::std_specs::cmp::OrdSpecImpl for SymbolIndex {
    open spec fn obeys_cmp_spec() -> bool { true }
    open spec fn cmp_spec(&self, other: &Self) -> Ordering {
        if self.0 < other.0 { Ordering::Less } else if self.0 == other.0 { Ordering::Equal } else { Ordering::Greater }
    }
}
pub proof fn lemma_symbol_index_is_a_btree_key()
    ensures vstd::laws_cmp::obeys_cmp::<SymbolIndex>(), vstd::std_specs::btree::key_obeys_cmp_spec::<SymbolIndex>(),
{
    broadcast use vstd::std_specs::btree::axiom_key_obeys_cmp_spec_meaning;
    reveal(vstd::laws_cmp::obeys_partial_cmp_spec_properties);
    reveal(vstd::laws_cmp::obeys_cmp_partial_ord);
    reveal(vstd::laws_cmp::obeys_cmp_ord);
    reveal(vstd::laws_eq::obeys_eq_spec_properties);
    reveal(vstd::laws_eq::obeys_eq);
}

// `for x in &set` goes through <&BTreeSet as IntoIterator>::into_iter, for which vstd has no contract; std
// implements it as self.iter(), so it is given the contract vstd has for BTreeSet::iter (assumed, listed).
pub assume_specification<'a, K, A: std::alloc::Allocator + Clone> [ <&'a BTreeSet<K, A> as IntoIterator>::into_iter ] (s: &'a BTreeSet<K, A>) -> (r: BTreeSetIter<'a, K>)
    ensures vstd::std_specs::btree::key_obeys_cmp_spec::<K>() ==> {
        &&& r.remaining().unref().to_set() == s@
        &&& r.remaining().no_duplicates()
        &&& r.remaining().len() == s@.len()
        &&& vstd::std_specs::btree::into_iter_btree_keys(r) == r.remaining().unref()
        &&& r.decrease() is Some
    };

impl<T> vstd::std_specs::core::IndexSpecImpl<SymbolIndex> for SymbolVec<T> {
    open spec fn index_req(&self, index: &SymbolIndex) -> bool { index.0 < self.0@.len() }
}
//@impl SYM /^impl < T > Index < SymbolIndex > for SymbolVec < T >/
//@  type Output
//@  fn index ret=r
//@  |             ensures *r == self.0@[index.0 as int],
//@end

// ---- ProdVec: text of create_index!(ProdIndex, ProdVec) ---------------------------------------------------------------
//@macro PRD IDX create_index invoked_in=IDX index=ProdIndex collection=ProdVec
//@struct PRD ProdIndex derive=Copy,Clone
//@end
//@struct PRD ProdVec
//@end
//@impl PRD /^impl < T > ProdVec < T >/
//@  fn new ret=r
//@  |                 ensures r.0@.len() == 0,
//@  fn push
//@  |                 ensures final(self).0@ == old(self).0@.push(value),
//@end
//@impl PRD /^impl < 'a , T > IntoIterator for & 'a ProdVec < T >/
//@  type Item
//@  type IntoIter
//@  fn into_iter ret=r
//@  |                 ensures r.remaining().len() == self.0@.len(),
//@  |                     forall|i: int| 0 <= i < self.0@.len() ==> *r.remaining()[i] == self.0@[i],
//@  |                     r.decrease() is Some,
//@end

//@allow external_body Production::rhs_symbols (map over res_symbol, which panics on an unresolved symbol): result taken as an uninterpreted function of the production
//@struct GRM ResolvingAssignment fields=-
//@end
//@struct GRM Production fields=rhs
//@end
/// the resolved symbols of a production's right-hand side (what Production::rhs_symbols returns; R-XBODY: assumed pure)
pub uninterp spec fn rhs_syms(p: &Production) -> Seq<SymbolIndex>;
//@impl GRM /^impl Production \{?$|^impl Production$/ has=rhs_symbols
//@  fn rhs_symbols ret=r xbody
//@  |         ensures r@ == rhs_syms(self), r@.len() == self.rhs@.len(),
//@end

// ---- TermVec / NonTermIndex: further instances of create_index! -------------------------------------------------------
//@macro TRM IDX create_index invoked_in=IDX index=TermIndex collection=TermVec
//@struct TRM TermIndex derive=Copy,Clone
//@end
//@struct TRM TermVec
//@end
//@impl TRM /^impl < T > TermVec < T >/
//@  fn len ret=r
//@  |                 ensures r == self.0@.len(),
//@end
//@macro NTI IDX create_index invoked_in=IDX index=NonTermIndex collection=NonTermVec
//@struct NTI NonTermIndex derive=Copy,Clone
//@end
//@struct GRM Terminal fields=-
//@end

//@struct GRM Grammar fields=productions,terminals,empty_index
//@end

/// number of terminals: symbols [0, nterm) are terminals, the rest are non-terminals
pub open spec fn nterm(g: &Grammar) -> int { g.terminals.0@.len() as int }

//@impl IDX /^impl TermIndex/
//@  fn symbol_index ret=r
//@  |         ensures r.0 == self.0,
//@end
//@impl IDX /^impl NonTermIndex/
//@  fn symbol_index ret=r
//@  |         requires self.0 + term_len <= usize::MAX,
//@  |         ensures r.0 == self.0 + term_len,
//@end

//@impl GRM /^impl Grammar/ has=is_nonterm
//@  fn term_to_symbol_index ret=r
//@  |         ensures r.0 == index.0, // [C01]
//@  fn symbol_to_term_index ret=r
//@  |         ensures r.0 == index.0, // [C01]
//@  fn nonterm_to_symbol_index ret=r
//@  |         requires index.0 + nterm(self) <= usize::MAX,
//@  |         ensures r.0 == index.0 + nterm(self), // [C01]
//@  fn symbol_to_nonterm_index ret=r
//@  |         requires index.0 >= nterm(self),
//@  |         ensures r.0 == index.0 - nterm(self), // [C01]
//@  fn is_nonterm ret=r
//@  |         ensures r == (index.0 >= nterm(self)), // [C01]
//@  fn is_term ret=r
//@  |         ensures r == (index.0 < nterm(self)), // [C01]
//@end

/// the four conversions are mutually inverse on their domains, and every symbol is exactly one of term / non-term
pub proof fn lemma_symbol_index_round_trips(g: &Grammar, t: int, n: int)
    requires 0 <= t < nterm(g), 0 <= n,
    ensures
        (t < nterm(g)) && !(t >= nterm(g)),
        (n + nterm(g)) - nterm(g) == n,
        n + nterm(g) >= nterm(g),
{
}

//@type TBL Firsts
//@type TBL FirstSets

// ---- specification of FIRST(alpha), from the property text ----------------------------------------------------------
pub open spec fn fs_view(fs: &FirstSets) -> Seq<Set<SymbolIndex>> {
    fs.0@.map_values(|s: BTreeSet<SymbolIndex>| s@)
}

/// FIRST(eps) = {EMPTY};  FIRST(X beta) = (FS[X] \ {EMPTY})  u  (if EMPTY in FS[X] then FIRST(beta) else {}).
pub open spec fn first_seq(fs: Seq<Set<SymbolIndex>>, syms: Seq<SymbolIndex>, e: SymbolIndex) -> Set<SymbolIndex>
    decreases syms.len(),
{
    if syms.len() == 0 {
        Set::empty().insert(e)
    } else {
        let x = fs[syms[0].0 as int];
        x.remove(e).union(if x.contains(e) { first_seq(fs, syms.drop_first(), e) } else { Set::empty() })
    }
}

pub open spec fn keys<K>(q: Seq<&K>) -> Set<K> { q.unref().to_set() }

pub proof fn lemma_keys_push<K>(q: Seq<&K>, x: &K)
    ensures keys(q.push(x)) == keys(q).insert(*x),
{
    assert(q.push(x).unref() =~= q.unref().push(*x));
    q.unref().lemma_push_to_set_commute(*x);
}

pub proof fn lemma_first_seq_step(fs: Seq<Set<SymbolIndex>>, syms: Seq<SymbolIndex>, e: SymbolIndex, k: int)
    requires 0 <= k < syms.len(),
    ensures first_seq(fs, syms.skip(k), e) == fs[syms[k].0 as int].remove(e).union(
        if fs[syms[k].0 as int].contains(e) { first_seq(fs, syms.skip(k + 1), e) } else { Set::empty() }),
{
    assert(syms.skip(k).drop_first() =~= syms.skip(k + 1));
}

//@fn TBL firsts ret=r attr=verifier::loop_isolation(false)
//@  |     requires forall|i: int| 0 <= i < symbols@.len() ==> symbols@[i].0 < first_sets.0@.len(),
//@  |     ensures r@ == first_seq(fs_view(first_sets), symbols@, grammar.empty_index), // [C01]
//@  before 1 "let mut firsts = Firsts::new();"
//@  |     proof { lemma_symbol_index_is_a_btree_key(); }
//@  |     let ghost fs = fs_view(first_sets);
//@  |     let ghost e = grammar.empty_index;
//@  |     let ghost goal = first_seq(fs, symbols@, e);
//@  |     proof { assert(symbols@.skip(0) =~= symbols@); }
//@  loop 1 iter=it
//@  |         invariant
//@  |             it.seq().unref() =~= symbols@,
//@  |             // `for` loops take no invariant_except_break, so both clauses are phrased to hold at the `break` as well
//@  |             goal =~= firsts@.union(first_seq(fs, symbols@.skip(it.index()), e)),
//@  |             break_out ==> firsts@ =~= goal,
//@  |             it.index() == it.seq().len() ==> goal =~= firsts@.insert(e),
//@  after 1 "let symbol_firsts = &first_sets[symbol];"
//@  |         proof {
//@  |             assert(symbol == symbols@[it.index()]);
//@  |             assert(symbol_firsts@ == fs[symbol.0 as int]);
//@  |             lemma_first_seq_step(fs, symbols@, e, it.index());
//@  |         }
//@  |         let ghost f0 = firsts@;
//@  loop 2 iter=it2
//@  |             invariant
//@  |                 keys(it2.seq()) == symbol_firsts@,
//@  |                 it2.index() == it2.seq().len() ==> it2.history() =~= it2.seq(),
//@  |                 firsts@ == f0.union(keys(it2.history()).remove(e)),
//@  |                 empty == keys(it2.history()).contains(e),
//@  after 1 "for first in symbol_firsts {"
//@  |             proof { lemma_keys_push(it2.history(), first); }
//@  before 1 "if !empty {"
//@  |         proof {
//@  |             assert(firsts@ =~= f0.union(symbol_firsts@.remove(e)));
//@  |             assert(empty == symbol_firsts@.contains(e));
//@  |             if it.index() + 1 == symbols@.len() { assert(symbols@.skip(it.index() + 1).len() == 0); }
//@  |         }
//@end

// ---- C03: right-nulled lengths ---------------------------------------------------------------------------------------
pub open spec fn nullable(fs: Seq<Set<SymbolIndex>>, x: SymbolIndex, e: SymbolIndex) -> bool { fs[x.0 as int].contains(e) }

/// k is the right-nulled length of a right-hand side: everything from k on can derive EMPTY, and k is the least such
/// position ("the last symbol in the production where all the following symbols can reduce EMPTY").
pub open spec fn is_rn_len(fs: Seq<Set<SymbolIndex>>, syms: Seq<SymbolIndex>, e: SymbolIndex, k: int) -> bool {
    &&& 0 <= k <= syms.len()
    &&& forall|i: int| k <= i < syms.len() ==> nullable(fs, #[trigger] syms[i], e)
    &&& k > 0 ==> !nullable(fs, syms[k - 1], e)
}

//@fn TBL production_rn_lengths ret=r attr=verifier::loop_isolation(false)
//@  |     requires
//@  |         forall|p: int, i: int| 0 <= p < grammar.productions.0@.len() && 0 <= i < rhs_syms(&grammar.productions.0@[p]).len()
//@  |             ==> (#[trigger] rhs_syms(&grammar.productions.0@[p])[i]).0 < first_sets.0@.len(),
//@  |     ensures
//@  |         r.0@.len() == grammar.productions.0@.len(), // [C03]
//@  |         forall|p: int| 0 <= p < r.0@.len() ==> is_rn_len(fs_view(first_sets), rhs_syms(&grammar.productions.0@[p]), grammar.empty_index, #[trigger] r.0@[p] as int), // [C03]
//@  before 1 "let mut prod_rn_lens = ProdVec::new();"
//@  |     proof { lemma_symbol_index_is_a_btree_key(); }
//@  |     let ghost fs = fs_view(first_sets);
//@  |     let ghost e = grammar.empty_index;
//@  loop 1 iter=it
//@  |         invariant
//@  |             it.seq().len() == grammar.productions.0@.len(),
//@  |             forall|i: int| 0 <= i < it.seq().len() ==> *it.seq()[i] == grammar.productions.0@[i],
//@  |             prod_rn_lens.0@.len() == it.index(),
//@  |             forall|p: int| 0 <= p < prod_rn_lens.0@.len() ==> is_rn_len(fs, rhs_syms(&grammar.productions.0@[p]), e, #[trigger] prod_rn_lens.0@[p] as int),
//@  after 1 "let mut rn_len = production.rhs.len();"
//@  |         let ghost syms = rhs_syms(production);
//@  |         proof { assert(*production == grammar.productions.0@[it.index()]); }
//@  loop 2 iter=it2
//@  |             invariant
//@  |                 it2.seq().len() == syms.len(),
//@  |                 forall|i: int| 0 <= i < it2.seq().len() ==> *it2.seq()[i] == syms[syms.len() - 1 - i],
//@  |                 // `for` loops take no invariant_except_break: both clauses also hold at the break
//@  |                 rn_len + it2.index() == syms.len(),
//@  |                 forall|i: int| rn_len <= i < syms.len() ==> nullable(fs, #[trigger] syms[i], e),
//@  after 1 "for symbol in production.rhs_symbols().iter().rev() {"
//@  |             proof {
//@  |                 assert(*symbol == syms[rn_len - 1]);
//@  |                 assert(first_sets.0@[symbol.0 as int]@ == fs[symbol.0 as int]);
//@  |             }
//@  hoist 2 "production.rhs_symbols()" as rhs__
//@end

} // verus!
fn main() {}
