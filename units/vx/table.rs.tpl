// Unit table: FIRST of a symbol sequence (rustemo-compiler/src/table/mod.rs) -- C01 "a wrong FIRST set on a nullable prefix".
#![feature(allocator_api)]
use vstd::prelude::*;
use std::collections::BTreeSet;
use std::collections::btree_set::Iter as BTreeSetIter;
use std::slice::Iter;
use std::ops::{Index, IndexMut};
use std::alloc::Allocator;
use core::cmp::Ordering;
use vstd::std_specs::iter::IteratorSpec;
use vstd::std_specs::core::IndexSpec;
use vstd::std_specs::cmp::{OrdSpec, PartialOrdSpec, PartialEqSpec};
use std::cell::RefCell;

//@file IDX rustemo-compiler/src/index.rs
//@file GRM rustemo-compiler/src/grammar/mod.rs
//@file TBL rustemo-compiler/src/table/mod.rs

// LRItem keeps its real derives (BTreeSet<LRItem> needs Ord; the derived Ord/PartialOrd compare every field, the
// hand-written PartialEq only prod and position) -- code Verus does not take -- so the definition and the PartialEq impl
// are placed outside verus!{} and the type is made known, fields visible, through external_type_specification.
//@allow external_type_specification LRItem: real definition (with its derives) outside verus!{}, structure visible to Verus (not opaque)
//@struct TBL LRItem derive=Eq,Clone,PartialOrd,Ord
//@end
//@impl TBL /^impl PartialEq for LRItem/
//@  fn eq outside
//@end
verus! {

#[verifier::external_type_specification]
pub struct ExLRItem(LRItem);

// std::cell::RefCell (the type of LRItem::follow): opaque.  Its content is read in the closure range only through the
// expression `item.follow.borrow().iter()` (R-XEXPR below).
//@allow external_type_specification RefCell: opaque std type of the field LRItem::follow
//@allow external_body RefCell: opaque type
//@allow accept_recursive_types RefCell<T> holds a T (std type, opaque here)
#[verifier::accept_recursive_types(T)]
#[verifier::external_type_specification]
#[verifier::external_body]
pub struct ExRefCell<T: ?Sized>(RefCell<T>);

//@allow assume_specification <&BTreeSet as IntoIterator>::into_iter has the contract vstd gives BTreeSet::iter (std dependency)

// ---- index newtypes: text of create_index!(SymbolIndex, SymbolVec) instantiated mechanically (R-MACRO) -------------
//@macro SYM IDX create_index invoked_in=IDX index=SymbolIndex collection=SymbolVec
//@struct SYM SymbolIndex derive=Copy,Clone,PartialEq,Eq,PartialOrd,Ord
//@end
//@struct SYM SymbolVec
//@end

// Assumption (listed in evidence): the *derived* PartialEq/PartialOrd/Ord of the usize newtype compare the single
// field -- what #[derive] generates.  Stated through vstd's spec traits so that BTreeSet's contracts apply.
impl vstd::std_specs::cmp::PartialEqSpecImpl for SymbolIndex {
    open spec fn obeys_eq_spec() -> bool { true }
    open spec fn eq_spec(&self, other: &Self) -> bool { self.0 == other.0 }
}
impl vstd::std_specs::cmp::PartialOrdSpecImpl for SymbolIndex {
    open spec fn obeys_partial_cmp_spec() -> bool { true }
    open spec fn partial_cmp_spec(&self, other: &Self) -> Option<Ordering> {
        Some(if self.0 < other.0 { Ordering::Less } else if self.0 == other.0 { Ordering::Equal } else { Ordering::Greater })
    }
}
impl vstd::std_specs::cmp::OrdSpecImpl for SymbolIndex {
    open spec fn obeys_cmp_spec() -> bool { true }
    open spec fn cmp_spec(&self, other: &Self) -> Ordering {
        if self.0 < other.0 { Ordering::Less } else if self.0 == other.0 { Ordering::Equal } else { Ordering::Greater }
    }
}
pub proof fn lemma_symbol_index_is_a_btree_key()
    ensures vstd::laws_cmp::obeys_cmp::<SymbolIndex>(), vstd::std_specs::btree::key_obeys_cmp_spec::<SymbolIndex>(),
{
    broadcast use vstd::std_specs::btree::axiom_key_obeys_cmp_spec_meaning;
    reveal(vstd::laws_cmp::obeys_partial_cmp_spec_properties);
    reveal(vstd::laws_cmp::obeys_cmp_partial_ord);
    reveal(vstd::laws_cmp::obeys_cmp_ord);
    reveal(vstd::laws_eq::obeys_eq_spec_properties);
    reveal(vstd::laws_eq::obeys_eq);
}

// `for x in &set` goes through <&BTreeSet as IntoIterator>::into_iter, for which vstd has no contract; std
// implements it as self.iter(), so it is given the contract vstd has for BTreeSet::iter (assumed, listed).
pub assume_specification<'a, K, A: std::alloc::Allocator + Clone> [ <&'a BTreeSet<K, A> as IntoIterator>::into_iter ] (s: &'a BTreeSet<K, A>) -> (r: BTreeSetIter<'a, K>)
    ensures vstd::std_specs::btree::key_obeys_cmp_spec::<K>() ==> {
        &&& r.remaining().unref().to_set() == s@
        &&& r.remaining().no_duplicates()
        &&& r.remaining().len() == s@.len()
        &&& vstd::std_specs::btree::into_iter_btree_keys(r) == r.remaining().unref()
        &&& r.decrease() is Some
    };

impl<T> vstd::std_specs::core::IndexSpecImpl<SymbolIndex> for SymbolVec<T> {
    open spec fn index_req(&self, index: &SymbolIndex) -> bool { index.0 < self.0@.len() }
}
//@impl SYM /^impl < T > Index < SymbolIndex > for SymbolVec < T >/
//@  type Output
//@  fn index ret=r
//@  |             ensures *r == self.0@[index.0 as int],
//@end
//@impl SYM /^impl < T > SymbolVec < T >/
//@  fn new ret=r
//@  |                 ensures r.0@.len() == 0,
//@  fn push
//@  |                 ensures final(self).0@ == old(self).0@.push(value),
//@end
//@allow external_body SymbolVec::index_mut is the one-line wrapper `self.0.index_mut(index.0)`; Vec's IndexMut::index_mut called as a method has no vstd contract, so the wrapper is given the contract of `&mut self.0[index.0]`
//@impl SYM /^impl < T > IndexMut < SymbolIndex > for SymbolVec < T >/
//@  fn index_mut ret=r xbody
//@  |             ensures *r == old(self).0@[index.0 as int], final(self).0@ == old(self).0@.update(index.0 as int, *final(r)),
//@end

// ---- ProdVec: text of create_index!(ProdIndex, ProdVec) ---------------------------------------------------------------
//@macro PRD IDX create_index invoked_in=IDX index=ProdIndex collection=ProdVec
//@struct PRD ProdIndex derive=Copy,Clone,PartialEq,Eq,PartialOrd,Ord
//@end
//@struct PRD ProdVec
//@end
//@impl PRD /^impl < T > ProdVec < T >/
//@  fn new ret=r
//@  |                 ensures r.0@.len() == 0,
//@  fn get ret=r
//@  |                 ensures r == (if index.0 < self.0@.len() { Some(&self.0@[index.0 as int]) } else { None::<&T> }),
//@  fn push
//@  |                 ensures final(self).0@ == old(self).0@.push(value),
//@end
//@impl PRD /^impl < 'a , T > IntoIterator for & 'a ProdVec < T >/
//@  type Item
//@  type IntoIter
//@  fn into_iter ret=r
//@  |                 ensures r.remaining().len() == self.0@.len(),
//@  |                     forall|i: int| 0 <= i < self.0@.len() ==> *r.remaining()[i] == self.0@[i],
//@  |                     r.decrease() is Some,
//@end

//@allow external_body Production::rhs_symbols (map over res_symbol, which panics on an unresolved symbol): result taken as an uninterpreted function of the production
//@struct GRM ResolvingAssignment fields=-
//@end
//@struct GRM Production fields=nonterminal,rhs
//@end
/// the resolved symbols of a production's right-hand side (what Production::rhs_symbols returns; R-XBODY: assumed pure)
pub open spec fn rhs_syms(p: &Production) -> Seq<SymbolIndex> { p.rhs@.map_values(|a: ResolvingAssignment| res_sym(&a)) }
/// the resolved symbol of one right-hand-side element (what res_symbol returns; it panics on an unresolved element, so its
/// result is an uninterpreted function of the element)
pub uninterp spec fn res_sym(a: &ResolvingAssignment) -> SymbolIndex;
//@allow external_body res_symbol (unwrap_or_else(|| panic!(..)) on the resolved index): result taken as an uninterpreted function of the element; that every right-hand-side element IS resolved when the table is built is not proved
//@fn GRM res_symbol ret=r xbody
//@  |     ensures r == res_sym(assign),
//@end
//@impl GRM /^impl Production \{?$|^impl Production$/ has=rhs_symbols
//@  fn rhs_symbols ret=r xbody
//@  |         ensures r@ == rhs_syms(self), r@.len() == self.rhs@.len(),
//@  fn rhs_symbol ret=r
//@  |         requires pos < self.rhs@.len(),
//@  |         ensures r == rhs_syms(self)[pos as int],
//@end

// ---- TermVec / NonTermIndex: further instances of create_index! -------------------------------------------------------
//@macro TRM IDX create_index invoked_in=IDX index=TermIndex collection=TermVec
//@struct TRM TermIndex derive=Copy,Clone
//@end
//@struct TRM TermVec
//@end
//@impl TRM /^impl < T > TermVec < T >/
//@  fn len ret=r
//@  |                 ensures r == self.0@.len(),
//@end
//@impl TRM /^impl < 'a , T > IntoIterator for & 'a TermVec < T >/
//@  type Item
//@  type IntoIter
//@  fn into_iter ret=r
//@  |                 ensures r.remaining().len() == self.0@.len(),
//@  |                     forall|i: int| 0 <= i < self.0@.len() ==> *r.remaining()[i] == self.0@[i],
//@  |                     r.decrease() is Some,
//@end
//@macro NTI IDX create_index invoked_in=IDX index=NonTermIndex collection=NonTermVec
//@struct NTI NonTermIndex derive=Copy,Clone
//@end
//@struct NTI NonTermVec
//@end
//@impl NTI /^impl < T > NonTermVec < T >/
//@  fn iter ret=r
//@  |                 ensures r.remaining().len() == self.0@.len(), r.decrease() is Some,
//@end
//@struct GRM Terminal fields=idx
//@end
//@struct GRM NonTerminal fields=productions
//@end

//@struct GRM Grammar fields=productions,terminals,nonterminals,empty_index
//@end

/// number of terminals: symbols [0, nterm) are terminals, the rest are non-terminals
pub open spec fn nterm(g: &Grammar) -> int { g.terminals.0@.len() as int }

//@impl IDX /^impl TermIndex/
//@  fn symbol_index ret=r
//@  |         ensures r.0 == self.0,
//@end
//@impl IDX /^impl NonTermIndex/
//@  fn symbol_index ret=r
//@  |         requires self.0 + term_len <= usize::MAX,
//@  |         ensures r.0 == self.0 + term_len,
//@end

//@impl GRM /^impl Grammar/ has=is_nonterm
//@  fn term_to_symbol_index ret=r
//@  |         ensures r.0 == index.0, // [C01]
//@  fn symbol_to_term_index ret=r
//@  |         ensures r.0 == index.0, // [C01]
//@  fn nonterm_to_symbol_index ret=r
//@  |         requires index.0 + nterm(self) <= usize::MAX,
//@  |         ensures r.0 == index.0 + nterm(self), // [C01]
//@  fn symbol_to_nonterm_index ret=r
//@  |         requires index.0 >= nterm(self),
//@  |         ensures r.0 == index.0 - nterm(self), // [C01]
//@  fn is_nonterm ret=r
//@  |         ensures r == (index.0 >= nterm(self)), // [C01]
//@  fn is_term ret=r
//@  |         ensures r == (index.0 < nterm(self)), // [C01]
//@end

/// the four conversions are mutually inverse on their domains, and every symbol is exactly one of term / non-term
pub proof fn lemma_symbol_index_round_trips(g: &Grammar, t: int, n: int)
    requires 0 <= t < nterm(g), 0 <= n,
    ensures
        (t < nterm(g)) && !(t >= nterm(g)),
        (n + nterm(g)) - nterm(g) == n,
        n + nterm(g) >= nterm(g),
{
}

//@type TBL Firsts
//@type TBL FirstSets

// ---- specification of FIRST(alpha), from the property text ----------------------------------------------------------
pub open spec fn fs_view(fs: &FirstSets) -> Seq<Set<SymbolIndex>> {
    fs.0@.map_values(|s: BTreeSet<SymbolIndex>| s@)
}

/// FIRST(eps) = {EMPTY};  FIRST(X beta) = (FS[X] \ {EMPTY})  u  (if EMPTY in FS[X] then FIRST(beta) else {}).
pub open spec fn first_seq(fs: Seq<Set<SymbolIndex>>, syms: Seq<SymbolIndex>, e: SymbolIndex) -> Set<SymbolIndex>
    decreases syms.len(),
{
    if syms.len() == 0 {
        Set::empty().insert(e)
    } else {
        let x = fs[syms[0].0 as int];
        x.remove(e).union(if x.contains(e) { first_seq(fs, syms.drop_first(), e) } else { Set::empty() })
    }
}

pub open spec fn keys<K>(q: Seq<&K>) -> Set<K> { q.unref().to_set() }

pub proof fn lemma_keys_push<K>(q: Seq<&K>, x: &K)
    ensures keys(q.push(x)) == keys(q).insert(*x),
{
    assert(q.push(x).unref() =~= q.unref().push(*x));
    q.unref().lemma_push_to_set_commute(*x);
}

pub proof fn lemma_first_seq_step(fs: Seq<Set<SymbolIndex>>, syms: Seq<SymbolIndex>, e: SymbolIndex, k: int)
    requires 0 <= k < syms.len(),
    ensures first_seq(fs, syms.skip(k), e) == fs[syms[k].0 as int].remove(e).union(
        if fs[syms[k].0 as int].contains(e) { first_seq(fs, syms.skip(k + 1), e) } else { Set::empty() }),
{
    assert(syms.skip(k).drop_first() =~= syms.skip(k + 1));
}

//@fn TBL firsts ret=r attr=verifier::loop_isolation(false)
//@  |     requires forall|i: int| 0 <= i < symbols@.len() ==> symbols@[i].0 < first_sets.0@.len(),
//@  |     ensures r@ == first_seq(fs_view(first_sets), symbols@, grammar.empty_index), // [C01]
//@  before 1 "let mut firsts = Firsts::new();"
//@  |     proof { lemma_symbol_index_is_a_btree_key(); }
//@  |     let ghost fs = fs_view(first_sets);
//@  |     let ghost e = grammar.empty_index;
//@  |     let ghost goal = first_seq(fs, symbols@, e);
//@  |     proof { assert(symbols@.skip(0) =~= symbols@); }
//@  loop 1 iter=it
//@  |         invariant
//@  |             it.seq().unref() =~= symbols@,
//@  |             // `for` loops take no invariant_except_break, so both clauses are phrased to hold at the `break` as well
//@  |             goal =~= firsts@.union(first_seq(fs, symbols@.skip(it.index()), e)),
//@  |             break_out ==> firsts@ =~= goal,
//@  |             it.index() == it.seq().len() ==> goal =~= firsts@.insert(e),
//@  after 1 "let symbol_firsts = &first_sets[symbol];"
//@  |         proof {
//@  |             assert(symbol == symbols@[it.index()]);
//@  |             assert(symbol_firsts@ == fs[symbol.0 as int]);
//@  |             lemma_first_seq_step(fs, symbols@, e, it.index());
//@  |         }
//@  |         let ghost f0 = firsts@;
//@  loop 2 iter=it2
//@  |             invariant
//@  |                 keys(it2.seq()) == symbol_firsts@,
//@  |                 it2.index() == it2.seq().len() ==> it2.history() =~= it2.seq(),
//@  |                 firsts@ == f0.union(keys(it2.history()).remove(e)),
//@  |                 empty == keys(it2.history()).contains(e),
//@  after 1 "for first in symbol_firsts {"
//@  |             proof { lemma_keys_push(it2.history(), first); }
//@  before 1 "if !empty {"
//@  |         proof {
//@  |             assert(firsts@ =~= f0.union(symbol_firsts@.remove(e)));
//@  |             assert(empty == symbol_firsts@.contains(e));
//@  |             if it.index() + 1 == symbols@.len() { assert(symbols@.skip(it.index() + 1).len() == 0); }
//@  |         }
//@end

// ---- C01: first_sets (the FIRST table itself): soundness of the fixpoint -----------------------------------------------
//@allow assume_specification BTreeSet::extend adds exactly the items of its argument (std dependency)
//@allow axiom fn into_items of a BTreeSet (the argument type of the one extend call) is its view
pub uninterp spec fn into_items<I, T>(iter: I) -> Set<T>;
pub assume_specification<T: Ord, A: Allocator + Clone, I: IntoIterator<Item = T>> [ <BTreeSet<T, A> as Extend<T>>::extend::<I> ] (s: &mut BTreeSet<T, A>, iter: I)
    ensures vstd::std_specs::btree::key_obeys_cmp_spec::<T>() ==> final(s)@ == old(s)@.union(into_items::<I, T>(iter));
pub broadcast axiom fn axiom_into_items_btree_set<T: Ord>(s: BTreeSet<T>)
    ensures #[trigger] into_items::<BTreeSet<T>, T>(s) == s@;

pub proof fn lemma_union_grows<T>(a: Set<T>, b: Set<T>)
    ensures a.union(b).len() > a.len() <==> !b.subset_of(a), a.union(b).len() >= a.len(),
{
    vstd::set_lib::lemma_len_subset::<T>(a, a.union(b));
    if b.subset_of(a) {
        assert(a.union(b) =~= a);
    } else {
        let x = choose|x: T| b.contains(x) && !a.contains(x);
        assert(a.insert(x).subset_of(a.union(b)));
        vstd::set_lib::lemma_len_subset::<T>(a.insert(x), a.union(b));
    }
}

pub open spec fn nsym(g: &Grammar) -> int { nterm(g) + g.nonterminals.0@.len() }
pub open spec fn lhs_sym(g: &Grammar, p: int) -> int { g.productions.0@[p].nonterminal.0 as int + nterm(g) }

/// what first_sets may assume about the grammar (established by the grammar builder; not proved here)
pub open spec fn grammar_wf(g: &Grammar) -> bool {
    &&& nsym(g) <= usize::MAX
    &&& (g.empty_index.0 as int) < nsym(g)
    &&& g.empty_index.0 >= nterm(g)
    &&& forall|t: int| 0 <= t < nterm(g) ==> (#[trigger] g.terminals.0@[t]).idx.0 == t
    &&& forall|p: int| 0 <= p < g.productions.0@.len() ==> (#[trigger] g.productions.0@[p]).nonterminal.0 < g.nonterminals.0@.len()
    &&& forall|p: int, i: int| 0 <= p < g.productions.0@.len() && 0 <= i < rhs_syms(&g.productions.0@[p]).len()
            ==> ((#[trigger] rhs_syms(&g.productions.0@[p])[i]).0 as int) < nsym(g)
}

/// FS is closed under the productions: FIRST(rhs) is contained in FIRST(lhs) -- every fixpoint of the FIRST equations
/// satisfies this; a table that is not closed misses lookaheads (the failure mode C01 names).
pub open spec fn closed_upto(g: &Grammar, fs: Seq<Set<SymbolIndex>>, n: int) -> bool {
    forall|p: int| 0 <= p < n ==> first_seq(fs, rhs_syms(&g.productions.0@[p]), g.empty_index).subset_of(#[trigger] fs[lhs_sym(g, p)])
}
pub open spec fn first_table_ok(g: &Grammar, fs: Seq<Set<SymbolIndex>>) -> bool {
    &&& fs.len() == nsym(g)
    &&& forall|t: int| 0 <= t < nterm(g) ==> (#[trigger] fs[t]).contains(SymbolIndex(t as usize))
    &&& fs[g.empty_index.0 as int].contains(g.empty_index)
}

// ---- C01/C04: soundness of the FIRST table -- no spurious FIRST symbol -------------------------------------------------
/// membership form of FIRST(alpha) over a table given as a predicate f(symbol, a)
pub open spec fn fsp(f: spec_fn(int, SymbolIndex) -> bool, syms: Seq<SymbolIndex>, e: SymbolIndex, a: SymbolIndex) -> bool
    decreases syms.len(),
{
    if syms.len() == 0 { a == e }
    else { (f(syms[0].0 as int, a) && a != e) || (f(syms[0].0 as int, e) && fsp(f, syms.drop_first(), e, a)) }
}
pub open spec fn table_pred(fs: Seq<Set<SymbolIndex>>) -> spec_fn(int, SymbolIndex) -> bool { |x: int, b: SymbolIndex| fs[x].contains(b) }

pub proof fn lemma_fsp_is_first_seq(fs: Seq<Set<SymbolIndex>>, syms: Seq<SymbolIndex>, e: SymbolIndex, a: SymbolIndex)
    ensures first_seq(fs, syms, e).contains(a) == fsp(table_pred(fs), syms, e, a),
    decreases syms.len(),
{
    if syms.len() > 0 { lemma_fsp_is_first_seq(fs, syms.drop_first(), e, a); }
}
pub proof fn lemma_fsp_mono(f: spec_fn(int, SymbolIndex) -> bool, h: spec_fn(int, SymbolIndex) -> bool, bound: int, syms: Seq<SymbolIndex>, e: SymbolIndex, a: SymbolIndex)
    requires
        forall|x: int, b: SymbolIndex| 0 <= x < bound && #[trigger] f(x, b) ==> h(x, b),
        forall|i: int| 0 <= i < syms.len() ==> ((#[trigger] syms[i]).0 as int) < bound,
        fsp(f, syms, e, a),
    ensures fsp(h, syms, e, a),
    decreases syms.len(),
{
    if syms.len() > 0 {
        assert((syms[0].0 as int) < bound);
        if f(syms[0].0 as int, e) && fsp(f, syms.drop_first(), e, a) {
            assert forall|i: int| 0 <= i < syms.drop_first().len() implies ((#[trigger] syms.drop_first()[i]).0 as int) < bound by {
                assert(syms.drop_first()[i] == syms[i + 1]);
            }
            lemma_fsp_mono(f, h, bound, syms.drop_first(), e, a);
        }
    }
}

/// the FIRST equations start from: a terminal begins with itself, EMPTY derives EMPTY
pub open spec fn base_has(g: &Grammar, x: int, a: SymbolIndex) -> bool {
    (0 <= x < nterm(g) && a.0 == x) || (x == g.empty_index.0 && a == g.empty_index)
}
/// a is in the n-th Kleene iterate of the FIRST equations at symbol x: it is justified by at most n nested applications
/// of "FIRST(rhs p) is contained in FIRST(lhs p)".  The least solution of the equations is the union over all n.
pub open spec fn kleene(g: &Grammar, n: nat, x: int, a: SymbolIndex) -> bool
    decreases n, 0int,
{
    if n == 0 { base_has(g, x, a) }
    else {
        kleene(g, (n - 1) as nat, x, a)
        || exists|p: int| 0 <= p < g.productions.0@.len() && #[trigger] lhs_sym(g, p) == x
            && fsp(kleene_pred(g, (n - 1) as nat), rhs_syms(&g.productions.0@[p]), g.empty_index, a)
    }
}
/// the n-th iterate as a table predicate
pub open spec fn kleene_pred(g: &Grammar, n: nat) -> spec_fn(int, SymbolIndex) -> bool
    decreases n, 1int,
{
    |y: int, b: SymbolIndex| kleene(g, n, y, b)
}
/// every entry of the table is justified by n applications of the equations: the table has no spurious FIRST symbol
pub open spec fn sound_upto(g: &Grammar, fs: Seq<Set<SymbolIndex>>, n: nat) -> bool {
    forall|x: int, a: SymbolIndex| 0 <= x < fs.len() && (#[trigger] fs[x].contains(a)) ==> kleene(g, n, x, a)
}

/// one step of the fixpoint loop keeps the table sound (one more application of the equations)
pub proof fn lemma_sound_step(g: &Grammar, before: Seq<Set<SymbolIndex>>, n: nat, p: int)
    requires
        sound_upto(g, before, n), 0 <= p < g.productions.0@.len(), 0 <= lhs_sym(g, p) < before.len(),
        forall|i: int| 0 <= i < rhs_syms(&g.productions.0@[p]).len() ==> ((#[trigger] rhs_syms(&g.productions.0@[p])[i]).0 as int) < before.len(),
    ensures
        sound_upto(g, before.update(lhs_sym(g, p), before[lhs_sym(g, p)].union(first_seq(before, rhs_syms(&g.productions.0@[p]), g.empty_index))), n + 1),
{
    let e = g.empty_index;
    let syms = rhs_syms(&g.productions.0@[p]);
    let l = lhs_sym(g, p);
    let after = before.update(l, before[l].union(first_seq(before, syms, e)));
    let kn = kleene_pred(g, n);
    assert forall|x: int, a: SymbolIndex| 0 <= x < after.len() && (#[trigger] after[x].contains(a)) implies kleene(g, n + 1, x, a) by {
        if x != l || before[l].contains(a) {
            assert(before[x].contains(a));
            assert(kleene(g, n, x, a));
        } else {
            assert(first_seq(before, syms, e).contains(a));
            lemma_fsp_is_first_seq(before, syms, e, a);
            assert forall|y: int, b: SymbolIndex| 0 <= y < before.len() && #[trigger] table_pred(before)(y, b) implies kn(y, b) by {
                assert(before[y].contains(b));
            }
            lemma_fsp_mono(table_pred(before), kn, before.len() as int, syms, e, a);
            assert(lhs_sym(g, p) == x);
        }
    }
}

/// ... and a table that contains the base and is closed contains every Kleene iterate: together with soundness, the table
/// first_sets returns is EXACTLY the least solution of the FIRST equations
pub proof fn lemma_closed_contains_kleene(g: &Grammar, fs: Seq<Set<SymbolIndex>>, n: nat, x: int, a: SymbolIndex)
    requires
        grammar_wf(g), first_table_ok(g, fs), closed_upto(g, fs, g.productions.0@.len() as int),
        0 <= x < nsym(g), kleene(g, n, x, a),
    ensures fs[x].contains(a),
    decreases n,
{
    if n == 0 {
        if 0 <= x < nterm(g) && a.0 == x { assert(fs[x].contains(SymbolIndex(x as usize))); assert(a == SymbolIndex(x as usize)); }
    } else if kleene(g, (n - 1) as nat, x, a) {
        lemma_closed_contains_kleene(g, fs, (n - 1) as nat, x, a);
    } else {
        let e = g.empty_index;
        let km = kleene_pred(g, (n - 1) as nat);
        let p = choose|p: int| 0 <= p < g.productions.0@.len() && #[trigger] lhs_sym(g, p) == x && fsp(km, rhs_syms(&g.productions.0@[p]), e, a);
        let syms = rhs_syms(&g.productions.0@[p]);
        assert forall|y: int, b: SymbolIndex| 0 <= y < nsym(g) && #[trigger] km(y, b) implies table_pred(fs)(y, b) by {
            lemma_closed_contains_kleene(g, fs, (n - 1) as nat, y, b);
        }
        lemma_fsp_mono(km, table_pred(fs), nsym(g), syms, e, a);
        lemma_fsp_is_first_seq(fs, syms, e, a);
        assert(first_seq(fs, syms, e).subset_of(fs[lhs_sym(g, p)]));
    }
}

// ---- termination of the fixpoint loop of first_sets: the table only grows, and it is bounded ---------------------------
/// total number of entries of the table
pub open spec fn total(fs: Seq<Set<SymbolIndex>>) -> nat
    decreases fs.len(),
{
    if fs.len() == 0 { 0 } else { total(fs.drop_last()) + fs.last().len() }
}
/// every entry is a symbol of the grammar and every set is finite
pub open spec fn bounded(fs: Seq<Set<SymbolIndex>>, n: int) -> bool {
    forall|x: int| 0 <= x < fs.len() ==> (#[trigger] fs[x]).finite() && forall|a: SymbolIndex| fs[x].contains(a) ==> (a.0 as int) < n
}
pub proof fn lemma_total_update(fs: Seq<Set<SymbolIndex>>, i: int, s: Set<SymbolIndex>)
    requires 0 <= i < fs.len(),
    ensures total(fs.update(i, s)) == total(fs) - fs[i].len() + s.len(),
    decreases fs.len(),
{
    if i == fs.len() - 1 {
        assert(fs.update(i, s).drop_last() =~= fs.drop_last());
    } else {
        lemma_total_update(fs.drop_last(), i, s);
        assert(fs.update(i, s).drop_last() =~= fs.drop_last().update(i, s));
    }
}
/// a finite set of symbols below n has at most n elements
pub proof fn lemma_set_bound(s: Set<SymbolIndex>, n: int)
    requires s.finite(), n >= 0, forall|a: SymbolIndex| s.contains(a) ==> (a.0 as int) < n,
    ensures s.len() <= n,
    decreases n,
{
    if n == 0 {
        assert(s =~= Set::empty());
    } else {
        let top = SymbolIndex((n - 1) as usize);
        let rest = s.remove(top);
        assert forall|a: SymbolIndex| rest.contains(a) implies (a.0 as int) < n - 1 by { if a.0 as int == n - 1 { assert(a == top); } }
        lemma_set_bound(rest, n - 1);
        if s.contains(top) { assert(s.len() == rest.len() + 1); } else { assert(rest =~= s); }
    }
}
pub proof fn lemma_total_bound(fs: Seq<Set<SymbolIndex>>, n: int)
    requires bounded(fs, n), n >= 0,
    ensures total(fs) <= fs.len() * n,
    decreases fs.len(),
{
    if fs.len() > 0 {
        assert(bounded(fs.drop_last(), n)) by { assert forall|x: int| 0 <= x < fs.drop_last().len() implies (#[trigger] fs.drop_last()[x]).finite() && forall|a: SymbolIndex| fs.drop_last()[x].contains(a) ==> (a.0 as int) < n by { assert(fs.drop_last()[x] == fs[x]); } }
        lemma_total_bound(fs.drop_last(), n);
        lemma_set_bound(fs.last(), n);
        assert(fs.len() * n == (fs.len() - 1) * n + n) by (nonlinear_arith);
    }
}

pub proof fn lemma_first_seq_bounded(fs: Seq<Set<SymbolIndex>>, syms: Seq<SymbolIndex>, e: SymbolIndex, n: int)
    requires bounded(fs, n), (e.0 as int) < n, forall|i: int| 0 <= i < syms.len() ==> ((#[trigger] syms[i]).0 as int) < fs.len(),
    ensures first_seq(fs, syms, e).finite(), forall|a: SymbolIndex| first_seq(fs, syms, e).contains(a) ==> (a.0 as int) < n,
    decreases syms.len(),
{
    if syms.len() > 0 {
        assert((syms[0].0 as int) < fs.len());
        let x = fs[syms[0].0 as int];
        assert(x.finite());
        assert forall|i: int| 0 <= i < syms.drop_first().len() implies ((#[trigger] syms.drop_first()[i]).0 as int) < fs.len() by { assert(syms.drop_first()[i] == syms[i + 1]); }
        lemma_first_seq_bounded(fs, syms.drop_first(), e, n);
    }
}

//@fn TBL first_sets ret=r foreach attr=verifier::loop_isolation(false)
//@  |     requires grammar_wf(grammar),
//@  |     ensures
//@  |         first_table_ok(grammar, fs_view(&r)), // [C01]
//@  |         closed_upto(grammar, fs_view(&r), grammar.productions.0@.len() as int), // [C01]
//@  |         exists|n: nat| sound_upto(grammar, fs_view(&r), n), // [C01] no spurious FIRST symbol
//@  before 1 "let mut first_sets = SymbolVec::new();"
//@  |     proof { lemma_symbol_index_is_a_btree_key(); }
//@  |     broadcast use axiom_into_items_btree_set;
//@  loop 1 iter=it
//@  |         invariant
//@  |             it.seq().len() == nterm(grammar),
//@  |             forall|i: int| 0 <= i < it.seq().len() ==> *it.seq()[i] == grammar.terminals.0@[i],
//@  |             fs_view(&first_sets).len() == it.index(),
//@  |             forall|t: int| 0 <= t < fs_view(&first_sets).len() ==> (#[trigger] fs_view(&first_sets)[t]) =~= Set::empty().insert(SymbolIndex(t as usize)),
//@  after 1 "let mut new_set = Firsts::new();"
//@  |         let ghost v0 = fs_view(&first_sets);
//@  |         proof { assert(*terminal == grammar.terminals.0@[it.index()]); }
//@  after 1 "first_sets.push(new_set);"
//@  |         proof { assert(fs_view(&first_sets) =~= v0.push(Set::empty().insert(SymbolIndex(it.index() as usize)))); }
//@  foreach_loop iter=it1
//@  |         invariant
//@  |             it1.seq().len() == grammar.nonterminals.0@.len(),
//@  |             fs_view(&first_sets).len() == nterm(grammar) + it1.index(),
//@  |             forall|t: int| 0 <= t < nterm(grammar) ==> (#[trigger] fs_view(&first_sets)[t]) =~= Set::empty().insert(SymbolIndex(t as usize)),
//@  |             forall|t: int| nterm(grammar) <= t < fs_view(&first_sets).len() ==> (#[trigger] fs_view(&first_sets)[t]) =~= Set::empty(),
//@  before 1 "first_sets.push(Firsts::new())"
//@  |         let ghost v1 = fs_view(&first_sets);
//@  after 1 "first_sets.push(Firsts::new())"
//@  |         ; proof { assert(fs_view(&first_sets) =~= v1.push(Set::empty())); }
//@  before 1 "first_sets[grammar.empty_index].insert(grammar.empty_index);"
//@  |     let ghost v2 = fs_view(&first_sets);
//@  after 1 "first_sets[grammar.empty_index].insert(grammar.empty_index);"
//@  |     proof { assert(fs_view(&first_sets) =~= v2.update(grammar.empty_index.0 as int, v2[grammar.empty_index.0 as int].insert(grammar.empty_index))); }
//@  |     // the number of applications of the FIRST equations that justify the table so far
//@  |     let ghost mut kn: nat = 0;
//@  |     proof {
//@  |         assert(bounded(fs_view(&first_sets), nsym(grammar))) by {
//@  |             assert forall|x: int| 0 <= x < fs_view(&first_sets).len() implies (#[trigger] fs_view(&first_sets)[x]).finite()
//@  |                 && forall|a: SymbolIndex| fs_view(&first_sets)[x].contains(a) ==> (a.0 as int) < nsym(grammar) by {
//@  |                 if x < nterm(grammar) { assert(v2[x] =~= Set::empty().insert(SymbolIndex(x as usize))); }
//@  |                 else { assert(v2[x] =~= Set::empty()); }
//@  |             }
//@  |         }
//@  |         lemma_total_bound(fs_view(&first_sets), nsym(grammar));
//@  |         assert forall|x: int, a: SymbolIndex| 0 <= x < fs_view(&first_sets).len() && (#[trigger] fs_view(&first_sets)[x].contains(a)) implies kleene(grammar, 0, x, a) by {
//@  |             if x < nterm(grammar) { assert(v2[x] =~= Set::empty().insert(SymbolIndex(x as usize))); }
//@  |             else if x != grammar.empty_index.0 { assert(v2[x] =~= Set::empty()); }
//@  |             else { assert(v2[x] =~= Set::empty()); }
//@  |         }
//@  |     }
//@  loop 2
//@  |         invariant
//@  |             sound_upto(grammar, fs_view(&first_sets), kn),
//@  |             bounded(fs_view(&first_sets), nsym(grammar)),
//@  |             total(fs_view(&first_sets)) <= nsym(grammar) * nsym(grammar),
//@  |             first_table_ok(grammar, fs_view(&first_sets)),
//@  |             !additions ==> closed_upto(grammar, fs_view(&first_sets), grammar.productions.0@.len() as int),
//@  |         // the table grows whenever the loop goes round again, and it is bounded; the last round changes only the flag
//@  |         decreases nsym(grammar) * nsym(grammar) - total(fs_view(&first_sets)), (if additions { 1int } else { 0int }),
//@  after 1 "additions = false;"
//@  |         let ghost fs0 = fs_view(&first_sets);
//@  loop 3 iter=it3
//@  |             invariant
//@  |                 it3.seq().len() == grammar.productions.0@.len(),
//@  |                 forall|i: int| 0 <= i < it3.seq().len() ==> *it3.seq()[i] == grammar.productions.0@[i],
//@  |                 first_table_ok(grammar, fs_view(&first_sets)),
//@  |                 sound_upto(grammar, fs_view(&first_sets), kn),
//@  |                 bounded(fs_view(&first_sets), nsym(grammar)),
//@  |                 total(fs_view(&first_sets)) <= nsym(grammar) * nsym(grammar),
//@  |                 total(fs_view(&first_sets)) >= total(fs0),
//@  |                 additions ==> total(fs_view(&first_sets)) > total(fs0),
//@  |                 !additions ==> fs_view(&first_sets) == fs0 && closed_upto(grammar, fs0, it3.index() as int),
//@  after 1 "let lhs_len = first_sets[lhs_nonterm].len();"
//@  |             let ghost before = fs_view(&first_sets);
//@  |             let ghost add = rhs_firsts@;
//@  |             let ghost pidx = it3.index() as int;
//@  |             proof {
//@  |                 assert(*production == grammar.productions.0@[it3.index()]);
//@  |                 assert(lhs_nonterm.0 == lhs_sym(grammar, it3.index()));
//@  |                 assert(add == first_seq(before, rhs_syms(production), grammar.empty_index));
//@  |             }
//@  after 1 "first_sets[lhs_nonterm].extend(rhs_firsts);"
//@  |             proof {
//@  |                 assert(fs_view(&first_sets) =~= before.update(lhs_nonterm.0 as int, before[lhs_nonterm.0 as int].union(add)));
//@  |                 lemma_union_grows(before[lhs_nonterm.0 as int], add);
//@  |                 if !(before[lhs_nonterm.0 as int].union(add).len() > before[lhs_nonterm.0 as int].len()) {
//@  |                     assert(before[lhs_nonterm.0 as int].union(add) =~= before[lhs_nonterm.0 as int]);
//@  |                     assert(fs_view(&first_sets) =~= before);
//@  |                 }
//@  |                 lemma_sound_step(grammar, before, kn, pidx);
//@  |                 // the table only grows, inside the symbols of the grammar
//@  |                 lemma_first_seq_bounded(before, rhs_syms(production), grammar.empty_index, nsym(grammar));
//@  |                 let li = lhs_nonterm.0 as int;
//@  |                 let grown = before[li].union(add);
//@  |                 assert(grown.finite());
//@  |                 lemma_total_update(before, li, grown);
//@  |                 assert(bounded(fs_view(&first_sets), nsym(grammar)));
//@  |                 lemma_total_bound(fs_view(&first_sets), nsym(grammar));
//@  |             }
//@  |             proof { kn = kn + 1; }
//@end


// ---- C01: LR(1) closure -- the lookahead (follow) set of every item one closure pass creates -----------------------------
// The statements reach Verus through R-LIFT (tools/lift.py, closure_block): the `for item in &self.items { .. }` statement
// of LRState::closure, verbatim.
//@macro ITM IDX create_index invoked_in=TBL index=ItemIndex collection=ItemVec
//@struct ITM ItemIndex derive=Copy,Clone
//@end
//@struct ITM ItemVec
//@end
//@impl ITM /^impl < 'a , T > IntoIterator for & 'a ItemVec < T >/
//@  type Item
//@  type IntoIter
//@  fn into_iter ret=r
//@  |                 ensures r.remaining().len() == self.0@.len(),
//@  |                     forall|i: int| 0 <= i < self.0@.len() ==> *r.remaining()[i] == self.0@[i],
//@  |                     r.decrease() is Some,
//@end
impl<T> vstd::std_specs::core::IndexSpecImpl<ProdIndex> for ProdVec<T> {
    open spec fn index_req(&self, index: &ProdIndex) -> bool { index.0 < self.0@.len() }
}
//@impl PRD /^impl < T > Index < ProdIndex > for ProdVec < T >/
//@  type Output
//@  fn index ret=r
//@  |             ensures *r == self.0@[index.0 as int],
//@end
impl<T> vstd::std_specs::core::IndexSpecImpl<NonTermIndex> for NonTermVec<T> {
    open spec fn index_req(&self, index: &NonTermIndex) -> bool { index.0 < self.0@.len() }
}
//@impl NTI /^impl < T > Index < NonTermIndex > for NonTermVec < T >/
//@  type Output
//@  fn index ret=r
//@  |             ensures *r == self.0@[index.0 as int],
//@end

//@type TBL Follow
//@struct TBL LRState fields=grammar,items
//@end

/// the content of an item's follow cell (RefCell<Follow>) -- read, never written, by the closure range
uninterp spec fn follow_of(item: &LRItem) -> Set<SymbolIndex>;
/// the items an iterator of references yields
pub uninterp spec fn ref_items<I, T>(iter: I) -> Set<T>;

//@allow assume_specification RefCell::new stores its argument (std dependency), stated on LRItem::with_follow's result through follow_of
//@allow assume_specification <BTreeSet<T> as Extend<&T>>::extend adds exactly the items its argument yields (std dependency)
//@allow assume_specification BTreeSet::clone returns an equal set (std dependency)
pub uninterp spec fn cell_content<T>(c: &RefCell<T>) -> T;
pub assume_specification<T> [RefCell::<T>::new] (v: T) -> (c: RefCell<T>)
    ensures cell_content(&c) == v;
broadcast axiom fn axiom_follow_of(item: &LRItem)
    ensures #[trigger] follow_of(item) == cell_content(&item.follow)@;
pub assume_specification<'a, T: 'a + Ord + Copy, A: Allocator + Clone, I: IntoIterator<Item = &'a T>> [ <BTreeSet<T, A> as Extend<&'a T>>::extend::<I> ] (s: &mut BTreeSet<T, A>, iter: I)
    ensures vstd::std_specs::btree::key_obeys_cmp_spec::<T>() ==> final(s)@ == old(s)@.union(ref_items::<I, T>(iter));

//@impl GRM /^impl Grammar/ has=production_len
//@  fn production_len ret=r
//@  |         requires prod.0 < self.productions.0@.len(),
//@  |         ensures r == self.productions.0@[prod.0 as int].rhs@.len(),
//@  fn production_rhs_symbols ret=r xbody
//@  |         requires prod.0 < self.productions.0@.len(),
//@  |         ensures r@ == rhs_syms(&self.productions.0@[prod.0 as int]), r@.len() == self.productions.0@[prod.0 as int].rhs@.len(),
//@end

//@impl TBL /^impl LRItem/ has=with_follow
//@  fn with_follow ret=r
//@  |         requires prod.0 < grammar.productions.0@.len(),
//@  |         ensures r.prod == prod, r.position == 0, r.rn_len == rn_len, // [C01]
//@  |             r.prod_len == grammar.productions.0@[prod.0 as int].rhs@.len(), // [C01]
//@  |             follow_of(&r) == follow@, // [C01]
//@  before 1 "LRItem {"
//@  |         broadcast use axiom_follow_of;
//@  fn symbol_at_position ret=r
//@  |         ensures r == (if self.prod.0 < grammar.productions.0@.len() && self.position < rhs_syms(&grammar.productions.0@[self.prod.0 as int]).len() {
//@  |                 Some(rhs_syms(&grammar.productions.0@[self.prod.0 as int])[self.position as int]) } else { None::<SymbolIndex> }),
//@end

/// The LR(1) closure lookahead.  For an item [A -> alpha . B beta, L] the items [B -> . gamma, L'] it contributes carry
/// L' = FIRST(beta L) = (FIRST(beta) \ {EMPTY}) u (L if EMPTY in FIRST(beta)), with FIRST(eps) = {EMPTY} -- so L' = L when
/// beta is empty.  `pos` is the dot position, `syms` the right-hand side, `l` the item's own lookahead set.
pub open spec fn closure_follow(fs: Seq<Set<SymbolIndex>>, syms: Seq<SymbolIndex>, pos: int, l: Set<SymbolIndex>, e: SymbolIndex) -> Set<SymbolIndex> {
    let f = first_seq(fs, syms.skip(pos + 1), e);
    if f.contains(e) { f.remove(e).union(l) } else { f }
}

/// what the closure range may assume about the state it works on (established by calc_states / the grammar builder; not proved here)
spec fn closure_pre(st: &LRState, fs: &FirstSets, rn: &Option<ProdVec<usize>>) -> bool {
    let g = st.grammar;
    &&& grammar_wf(g)
    &&& fs.0@.len() == nsym(g)
    &&& (rn matches Some(v) ==> v.0@.len() == g.productions.0@.len())
    &&& forall|i: int| 0 <= i < st.items.0@.len() ==> (#[trigger] st.items.0@[i]).prod.0 < g.productions.0@.len() && st.items.0@[i].position < usize::MAX
    &&& forall|n: int, k: int| 0 <= n < g.nonterminals.0@.len() && 0 <= k < g.nonterminals.0@[n].productions@.len()
            ==> (#[trigger] g.nonterminals.0@[n].productions@[k]).0 < g.productions.0@.len()
    &&& forall|p: int| 0 <= p < g.productions.0@.len() ==> rhs_syms(&g.productions.0@[p]).len() == (#[trigger] g.productions.0@[p]).rhs@.len()
}

//@lift CLB closure_block
//@allow external_body xexpr_follow_iter: the expression `item.follow.borrow().iter()` (RefCell::borrow + Deref of std::cell::Ref + BTreeSet::iter; Verus accepts no specification for Ref's Deref impl) moved verbatim into an external function; ASSUMED: it yields exactly the follow set of the item
//@impl CLB /^impl < 'g > LRState < 'g >/
//@  fn closure_block allclosures attr=verifier::loop_isolation(false)
//@  |         requires closure_pre(self, first_sets, prod_rn_lengths),
//@  xexpr_all xexpr_follow_iter(item) = item.follow.borrow().iter()
//@  before 1 "for item in &self.items {"
//@  |             proof { lemma_symbol_index_is_a_btree_key(); }
//@  |             let ghost g = self.grammar;
//@  |             let ghost fs = fs_view(first_sets);
//@  |             let ghost e = g.empty_index;
//@  loop 1 iter=it
//@  |                 invariant
//@  |                     it.seq().len() == self.items.0@.len(),
//@  |                     forall|i: int| 0 <= i < it.seq().len() ==> *it.seq()[i] == self.items.0@[i],
//@  after 1 "for item in &self.items {"
//@  |                 proof { assert(*item == self.items.0@[it.index()]); }
//@  |                 let ghost syms = rhs_syms(&g.productions.0@[item.prod.0 as int]);
//@  |                 let ghost want = closure_follow(fs, syms, item.position as int, follow_of(item), e);
//@  before 1 "// Get all productions of the current non-terminal and"
//@  |                         // [C01] "a lookahead lost in closure": the follow set handed to every new item is FIRST(beta L)
//@  |                         assert(new_follow@ =~= want); // [C01]
//@  loop 2 iter=it2
//@  |                             invariant
//@  |                                 it2.seq().unref() =~= g.nonterminals.0@[nonterm.0 as int].productions@,
//@  |                                 new_follow@ == want,
//@  |                                 // [C01] the new items are the productions of the non-terminal right of the dot
//@  |                                 item.position < syms.len() && nonterm.0 + nterm(g) == syms[item.position as int].0, // [C01]
//@  cspec_text |p|p[*prod]
//@  |  -> (r: usize) requires p.0@.len() == g.productions.0@.len() && prod.0 < g.productions.0@.len() ensures r == p.0@[prod.0 as int]
//@  before 1 "new_items.insert(LRItem::with_follow("
//@  |                             proof { assert(*prod == g.nonterminals.0@[nonterm.0 as int].productions@[it2.index()]); }
//@end
//@xexprfn xexpr_follow_iter nobody
//@  | fn xexpr_follow_iter<'a>(item: &'a LRItem) -> (r: BTreeSetIter<'a, SymbolIndex>)
//@  |     ensures ref_items::<BTreeSetIter<'a, SymbolIndex>, SymbolIndex>(r) == follow_of(item),
//@end

// ---- C03: right-nulled lengths ---------------------------------------------------------------------------------------
pub open spec fn nullable(fs: Seq<Set<SymbolIndex>>, x: SymbolIndex, e: SymbolIndex) -> bool { fs[x.0 as int].contains(e) }

/// k is the right-nulled length of a right-hand side: everything from k on can derive EMPTY, and k is the least such
/// position ("the last symbol in the production where all the following symbols can reduce EMPTY").
pub open spec fn is_rn_len(fs: Seq<Set<SymbolIndex>>, syms: Seq<SymbolIndex>, e: SymbolIndex, k: int) -> bool {
    &&& 0 <= k <= syms.len()
    &&& forall|i: int| k <= i < syms.len() ==> nullable(fs, #[trigger] syms[i], e)
    &&& k > 0 ==> !nullable(fs, syms[k - 1], e)
}

//@fn TBL production_rn_lengths ret=r attr=verifier::loop_isolation(false)
//@  |     requires
//@  |         forall|p: int, i: int| 0 <= p < grammar.productions.0@.len() && 0 <= i < rhs_syms(&grammar.productions.0@[p]).len()
//@  |             ==> (#[trigger] rhs_syms(&grammar.productions.0@[p])[i]).0 < first_sets.0@.len(),
//@  |     ensures
//@  |         r.0@.len() == grammar.productions.0@.len(), // [C03]
//@  |         forall|p: int| 0 <= p < r.0@.len() ==> is_rn_len(fs_view(first_sets), rhs_syms(&grammar.productions.0@[p]), grammar.empty_index, #[trigger] r.0@[p] as int), // [C03]
//@  before 1 "let mut prod_rn_lens = ProdVec::new();"
//@  |     proof { lemma_symbol_index_is_a_btree_key(); }
//@  |     let ghost fs = fs_view(first_sets);
//@  |     let ghost e = grammar.empty_index;
//@  loop 1 iter=it
//@  |         invariant
//@  |             it.seq().len() == grammar.productions.0@.len(),
//@  |             forall|i: int| 0 <= i < it.seq().len() ==> *it.seq()[i] == grammar.productions.0@[i],
//@  |             prod_rn_lens.0@.len() == it.index(),
//@  |             forall|p: int| 0 <= p < prod_rn_lens.0@.len() ==> is_rn_len(fs, rhs_syms(&grammar.productions.0@[p]), e, #[trigger] prod_rn_lens.0@[p] as int),
//@  after 1 "let mut rn_len = production.rhs.len();"
//@  |         let ghost syms = rhs_syms(production);
//@  |         proof { assert(*production == grammar.productions.0@[it.index()]); }
//@  loop 2 iter=it2
//@  |             invariant
//@  |                 it2.seq().len() == syms.len(),
//@  |                 forall|i: int| 0 <= i < it2.seq().len() ==> *it2.seq()[i] == syms[syms.len() - 1 - i],
//@  |                 // `for` loops take no invariant_except_break: both clauses also hold at the break
//@  |                 rn_len + it2.index() == syms.len(),
//@  |                 forall|i: int| rn_len <= i < syms.len() ==> nullable(fs, #[trigger] syms[i], e),
//@  after 1 "for symbol in production.rhs_symbols().iter().rev() {"
//@  |             proof {
//@  |                 assert(*symbol == syms[rn_len - 1]);
//@  |                 assert(first_sets.0@[symbol.0 as int]@ == fs[symbol.0 as int]);
//@  |             }
//@  hoist 2 "production.rhs_symbols()" as rhs__
//@end

} // verus!
fn main() {}
